#!/bin/bash
# runs every quick (or $1) check once, prints one line each, validates evidence
tier=${1:-quick}
# always the tree this script lives in (a background snapshot must not fall back to the live /verif)
export VERIF_ROOT=${VERIF_ROOT:-$(dirname "$(readlink -f "$0")")}
cd "$VERIF_ROOT"
for p in $(python3 -c "import json;print(' '.join(c['property_id'] for c in json.load(open('MANIFEST.json'))['checks']))"); do
  s=$(date +%s); out=$(./run $p $tier 2>&1); rc=$?; e=$(( $(date +%s) - s ))
  kf=$(echo "$out" | grep -c '^KNOWN-FINDING')
  echo "$p rc=$rc ${e}s known=$kf $(echo "$out" | grep -c '^VIOLATION') violations $(echo "$out" | grep -m1 HARNESS)"
done
python3-vt - <<'PY'
import json,jsonschema,glob
sch=json.load(open('/root/.vp/EVIDENCE.schema.json'))
import os
for f in sorted(glob.glob(os.environ.get('VERIF_ROOT','/verif')+'/evidence/C*.json')):
    try: jsonschema.validate(json.load(open(f)),sch)
    except Exception as e: print('INVALID',f,str(e)[:200])
print('evidence validated')
PY
