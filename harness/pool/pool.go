// Package pool runs independent, deterministic jobs in worker subprocesses of
// the same binary (process-global clocks forbid in-process parallelism, and a
// wedged or panicked instance dies with its worker).
package pool

import (
	"bufio"
	"bytes"
	"encoding/json"
	"fmt"
	"io"
	"os"
	"os/exec"
	"runtime"
	"runtime/debug"
	"sync"
	"sync/atomic"
	"syscall"
	"time"
)

type Job struct {
	ID   int             `json:"id"`
	Kind string          `json:"kind"`
	Data json.RawMessage `json:"data"`
}

type Result struct {
	ID      int             `json:"id"`
	Data    json.RawMessage `json:"data,omitempty"`
	Err     string          `json:"err,omitempty"`     // handler returned an error (harness problem)
	Panic   string          `json:"panic,omitempty"`   // handler panicked outside instrumented regions
	Timeout bool            `json:"timeout,omitempty"` // watchdog fired
	Dump    string          `json:"dump,omitempty"`    // stderr of the worker (goroutine dump on timeout)
	Recycle bool            `json:"recycle,omitempty"` // worker exits after this job; parent must start a new one
}

type Handler func(data json.RawMessage) (interface{}, error)

var handlers = map[string]Handler{}

var recycle bool

// RequestRecycle makes the worker exit after the current job (its state is
// poisoned, e.g. by an abandoned instance); the parent starts a new one.
func RequestRecycle() { recycle = true }

func Register(kind string, h Handler) { handlers[kind] = h }

// WorkerMain is the body of a worker subprocess.
func WorkerMain() {
	in := bufio.NewReaderSize(os.Stdin, 1<<20)
	out := bufio.NewWriter(os.Stdout)
	enc := json.NewEncoder(out)
	for {
		line, err := in.ReadBytes('\n')
		if len(line) > 0 {
			var j Job
			if err := json.Unmarshal(line, &j); err != nil {
				fmt.Fprintln(os.Stderr, "worker: bad job:", err)
				os.Exit(3)
			}
			res := runJob(j)
			res.Recycle = recycle || res.Panic != ""
			enc.Encode(res)
			out.Flush()
			if res.Panic != "" || recycle {
				os.Exit(0) // state may be poisoned; parent respawns
			}
		}
		if err != nil {
			return
		}
	}
}

func runJob(j Job) (res Result) {
	res.ID = j.ID
	h := handlers[j.Kind]
	if h == nil {
		res.Err = "no handler for " + j.Kind
		return
	}
	defer func() {
		if r := recover(); r != nil {
			res.Panic = fmt.Sprintf("%v\n%s", r, debug.Stack())
		}
	}()
	v, err := h(j.Data)
	if err != nil {
		res.Err = err.Error()
		return
	}
	b, err := json.Marshal(v)
	if err != nil {
		res.Err = "marshal: " + err.Error()
		return
	}
	res.Data = b
	return
}

type worker struct {
	cmd    *exec.Cmd
	stdin  io.WriteCloser
	stdout *bufio.Reader
	stderr *bytes.Buffer
}

type Pool struct {
	N       int
	Timeout time.Duration
	Env     []string
	Args    []string
	// RecycleAfter jobs a worker is replaced (bounds leaked goroutines/sockets).
	RecycleAfter int
	// AbortOnTimeout: once a job has run into the time limit, jobs not yet started are skipped (Err "skipped:
	// an earlier job timed out"): a search that has met an operation that does not return will meet it again in
	// most of its remaining jobs, each costing the full time limit.
	AbortOnTimeout bool
	aborted        atomic.Bool
}

func New(n int) *Pool {
	if n <= 0 {
		n = runtime.NumCPU()
	}
	return &Pool{N: n, Timeout: 120 * time.Second, Args: []string{"worker"}, RecycleAfter: 400}
}

func (p *Pool) spawn() (*worker, error) {
	cmd := exec.Command(os.Args[0], p.Args...)
	cmd.Env = append(os.Environ(), p.Env...)
	cmd.Env = append(cmd.Env, "GOMAXPROCS=2")
	stdin, err := cmd.StdinPipe()
	if err != nil {
		return nil, err
	}
	stdout, err := cmd.StdoutPipe()
	if err != nil {
		return nil, err
	}
	w := &worker{cmd: cmd, stdin: stdin, stdout: bufio.NewReaderSize(stdout, 1<<20), stderr: &bytes.Buffer{}}
	cmd.Stderr = w.stderr
	if err := cmd.Start(); err != nil {
		return nil, err
	}
	return w, nil
}

// exited reports whether the worker process has already terminated.
func (w *worker) exited() bool {
	time.Sleep(2 * time.Millisecond)
	return w.cmd.Process.Signal(syscall.Signal(0)) != nil
}

func (w *worker) kill() {
	if w == nil || w.cmd.Process == nil {
		return
	}
	w.stdin.Close()
	w.cmd.Process.Kill()
	w.cmd.Wait()
}

func (w *worker) stop() {
	if w == nil {
		return
	}
	w.stdin.Close()
	done := make(chan struct{})
	go func() { w.cmd.Wait(); close(done) }()
	select {
	case <-done:
	case <-time.After(2 * time.Second):
		w.cmd.Process.Kill()
		<-done
	}
}

// Map runs all jobs and returns results in job order. onResult, if set, is
// called (serialised) as results arrive.
func (p *Pool) Map(kind string, datas []interface{}, onResult func(i int, r *Result)) []Result {
	results := make([]Result, len(datas))
	next := 0
	var mu sync.Mutex
	var cbMu sync.Mutex
	var wg sync.WaitGroup
	n := p.N
	if n > len(datas) {
		n = len(datas)
	}
	for k := 0; k < n; k++ {
		wg.Add(1)
		go func() {
			defer wg.Done()
			var w *worker
			served := 0
			defer func() { w.stop() }()
			for {
				mu.Lock()
				i := next
				next++
				mu.Unlock()
				if i >= len(datas) {
					return
				}
				if p.AbortOnTimeout && p.aborted.Load() {
					results[i] = Result{ID: i, Err: "skipped: an earlier job timed out"}
					continue
				}
				if w == nil || (p.RecycleAfter > 0 && served >= p.RecycleAfter) {
					w.stop()
					var err error
					w, err = p.spawn()
					if err != nil {
						results[i] = Result{ID: i, Err: "spawn: " + err.Error()}
						continue
					}
					served = 0
				}
				served++
				raw, _ := json.Marshal(datas[i])
				jb, _ := json.Marshal(Job{ID: i, Kind: kind, Data: raw})
				jb = append(jb, '\n')
				res := p.runOne(w, i, jb)
				if res.Timeout {
					p.aborted.Store(true)
				}
				if res.Timeout || res.Panic != "" || res.Err == "worker died" {
					w.kill()
					w = nil
				} else if res.Recycle {
					w.stop()
					w = nil
				}
				results[i] = res
				if onResult != nil {
					cbMu.Lock()
					onResult(i, &results[i])
					cbMu.Unlock()
				}
			}
		}()
	}
	wg.Wait()
	return results
}

func (p *Pool) runOne(w *worker, i int, jb []byte) Result {
	type rd struct {
		line []byte
		err  error
	}
	ch := make(chan rd, 1)
	if _, err := w.stdin.Write(jb); err != nil {
		return Result{ID: i, Err: "worker died", Dump: w.stderr.String()}
	}
	go func() {
		line, err := w.stdout.ReadBytes('\n')
		ch <- rd{line, err}
	}()
	select {
	case r := <-ch:
		if r.err != nil && len(r.line) == 0 {
			w.cmd.Wait()
			return Result{ID: i, Err: "worker died", Dump: headTail(w.stderr.String(), 6000, 14000)}
		}
		var res Result
		if err := json.Unmarshal(r.line, &res); err != nil {
			return Result{ID: i, Err: "bad result: " + err.Error() + ": " + tail(string(r.line), 300)}
		}
		res.ID = i
		return res
	case <-time.After(p.Timeout):
		// Ask for a goroutine dump, then kill.
		w.cmd.Process.Signal(syscall.SIGQUIT)
		time.Sleep(500 * time.Millisecond)
		w.cmd.Process.Kill()
		<-ch
		w.cmd.Wait()
		return Result{ID: i, Timeout: true, Dump: tail(w.stderr.String(), 60000)}
	}
}

// headTail keeps the beginning (where the runtime prints why the process died) and the end.
func headTail(s string, h, t int) string {
	if len(s) <= h+t {
		return s
	}
	return s[:h] + "\n...\n" + s[len(s)-t:]
}

func tail(s string, n int) string {
	if len(s) > n {
		return s[len(s)-n:]
	}
	return s
}
