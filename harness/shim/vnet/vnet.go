// Package vnet stands in for "net". Listening is the real thing; Dial first
// asks a harness dialer, which may answer with an in-memory connection, an
// error, or decline (real dial).
package vnet

import (
	"net"
	"sync"
	"time"
)

type (
	Conn       = net.Conn
	Listener   = net.Listener
	Addr       = net.Addr
	UDPAddr    = net.UDPAddr
	UDPConn    = net.UDPConn
	TCPAddr    = net.TCPAddr
	TCPConn    = net.TCPConn
	IP         = net.IP
	Error      = net.Error
	OpError    = net.OpError
	PacketConn = net.PacketConn
)

var ErrClosed = net.ErrClosed

func Listen(network, address string) (Listener, error) { return net.Listen(network, address) }
func ListenUDP(network string, laddr *UDPAddr) (*UDPConn, error) {
	return net.ListenUDP(network, laddr)
}
func ParseIP(s string) IP                             { return net.ParseIP(s) }
func JoinHostPort(h, p string) string                 { return net.JoinHostPort(h, p) }
func SplitHostPort(hp string) (string, string, error) { return net.SplitHostPort(hp) }
func ResolveUDPAddr(n, a string) (*UDPAddr, error)    { return net.ResolveUDPAddr(n, a) }
func ResolveTCPAddr(n, a string) (*TCPAddr, error)    { return net.ResolveTCPAddr(n, a) }
func Pipe() (Conn, Conn)                              { return net.Pipe() }

// Dialer answers a dial. handled=false means "use the real network".
type Dialer func(network, address string) (c Conn, err error, handled bool)

var (
	mu     sync.Mutex
	dialer Dialer
)

func SetDialer(d Dialer) { mu.Lock(); dialer = d; mu.Unlock() }

func Dial(network, address string) (Conn, error) {
	mu.Lock()
	d := dialer
	mu.Unlock()
	if d != nil {
		if c, err, ok := d(network, address); ok {
			return c, err
		}
	}
	return net.Dial(network, address)
}

func DialTimeout(network, address string, t time.Duration) (Conn, error) {
	mu.Lock()
	d := dialer
	mu.Unlock()
	if d != nil {
		if c, err, ok := d(network, address); ok {
			return c, err
		}
	}
	return net.DialTimeout(network, address, t)
}

// DatagramConn is a connected-UDP stand-in: each Write is one datagram handed
// to OnWrite.
type DatagramConn struct {
	OnWrite func(b []byte) error
	Remote  string
}

type strAddr struct{ n, s string }

func (a strAddr) Network() string { return a.n }
func (a strAddr) String() string  { return a.s }

func (d *DatagramConn) Read(b []byte) (int, error) { select {} }
func (d *DatagramConn) Write(b []byte) (int, error) {
	cp := append([]byte(nil), b...)
	if err := d.OnWrite(cp); err != nil {
		return 0, err
	}
	return len(b), nil
}
func (d *DatagramConn) Close() error                       { return nil }
func (d *DatagramConn) LocalAddr() Addr                    { return strAddr{"udp", "vnet-local"} }
func (d *DatagramConn) RemoteAddr() Addr                   { return strAddr{"udp", d.Remote} }
func (d *DatagramConn) SetDeadline(t time.Time) error      { return nil }
func (d *DatagramConn) SetReadDeadline(t time.Time) error  { return nil }
func (d *DatagramConn) SetWriteDeadline(t time.Time) error { return nil }
