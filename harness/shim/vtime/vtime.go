// Package vtime stands in for "time" in the recompiled repository sources.
// In virtual mode (the default) the clock only moves when the harness moves
// it and sleepers/timers only fire when the harness fires them, one at a
// time. With VERIF_REALTIME=1 in the environment everything is the real thing.
package vtime

import (
	"os"
	"sort"
	"sync"
	"time"

	"verifh/vsched"
)

type (
	Time     = time.Time
	Duration = time.Duration
	Month    = time.Month
	Weekday  = time.Weekday
	Location = time.Location
)

const (
	Nanosecond  = time.Nanosecond
	Microsecond = time.Microsecond
	Millisecond = time.Millisecond
	Second      = time.Second
	Minute      = time.Minute
	Hour        = time.Hour

	Layout      = time.Layout
	ANSIC       = time.ANSIC
	UnixDate    = time.UnixDate
	RFC822      = time.RFC822
	RFC1123     = time.RFC1123
	RFC3339     = time.RFC3339
	RFC3339Nano = time.RFC3339Nano
	Kitchen     = time.Kitchen
	DateTime    = time.DateTime
	DateOnly    = time.DateOnly
	TimeOnly    = time.TimeOnly

	January   = time.January
	February  = time.February
	March     = time.March
	April     = time.April
	May       = time.May
	June      = time.June
	July      = time.July
	August    = time.August
	September = time.September
	October   = time.October
	November  = time.November
	December  = time.December
)

var (
	UTC   = time.UTC
	Local = time.Local
)

func Unix(sec, nsec int64) Time { return time.Unix(sec, nsec) }
func UnixMilli(ms int64) Time   { return time.UnixMilli(ms) }
func Date(y int, m Month, d, h, mi, s, ns int, l *Location) Time {
	return time.Date(y, m, d, h, mi, s, ns, l)
}
func Parse(layout, value string) (Time, error) { return time.Parse(layout, value) }
func ParseDuration(s string) (Duration, error) { return time.ParseDuration(s) }
func Since(t Time) Duration                    { return Now().Sub(t) }
func Until(t Time) Duration                    { return t.Sub(Now()) }

// Epoch is the fixed start of the virtual clock: 2024-06-01 00:00:00 UTC,
// safely after the production genesis.
const Epoch int64 = 1717200000

var (
	mu      sync.Mutex
	real    = os.Getenv("VERIF_REALTIME") == "1"
	offset  time.Duration // virtual now = Epoch + offset
	pending []*entry
	seq     uint64
	regCond = sync.NewCond(&mu)
)

type entry struct {
	seq      uint64
	goid     int64
	d        Duration
	deadline time.Duration // offset at which it is due
	ch       chan Time
	fn       func()
	fired    bool
	stopped  bool
	sleep    bool
}

// Real reports whether the shim is in pass-through mode.
func Real() bool { return real }

// SetReal switches mode; only call before any repository code runs.
func SetReal(b bool) { mu.Lock(); real = b; mu.Unlock() }

func Now() Time {
	if real {
		return time.Now()
	}
	if e := vsched.Active(); e != nil && e.PointOnNow {
		vsched.Yield("now", nil)
	}
	mu.Lock()
	o := offset
	h := onNow
	mu.Unlock()
	if h != nil {
		h(o)
	}
	return time.Unix(Epoch, 0).Add(o)
}

var onNow func(offset Duration)

// SetOnNow installs a callback that sees every virtual clock read.
func SetOnNow(f func(offset Duration)) { mu.Lock(); onNow = f; mu.Unlock() }

// Advance moves the virtual clock. No timer fires by itself.
func Advance(d Duration) {
	mu.Lock()
	offset += d
	mu.Unlock()
}

// SetOffset sets the virtual clock to Epoch+d.
func SetOffset(d Duration) {
	mu.Lock()
	offset = d
	mu.Unlock()
}

func Offset() Duration { mu.Lock(); defer mu.Unlock(); return offset }

func register(d Duration, fn func()) *entry {
	mu.Lock()
	seq++
	e := &entry{seq: seq, goid: vsched.GoID(), d: d, deadline: offset + d, ch: make(chan Time, 1), fn: fn}
	pending = append(pending, e)
	regCond.Broadcast()
	mu.Unlock()
	return e
}

func Sleep(d Duration) {
	if real {
		time.Sleep(d)
		return
	}
	if d <= 0 {
		return
	}
	if d < ParkSleepAtLeast {
		// Short plain sleeps are pacing delays: account for them on the
		// virtual clock and carry on.
		Advance(d)
		return
	}
	e := register(d, nil)
	e.sleep = true
	<-e.ch
}

// ParkSleepAtLeast: plain Sleep calls at least this long park until released;
// shorter ones only advance the virtual clock.
var ParkSleepAtLeast = 2 * time.Second

type Timer struct {
	C  <-chan Time
	rt *time.Timer
	e  *entry
}

func NewTimer(d Duration) *Timer {
	if real {
		rt := time.NewTimer(d)
		return &Timer{C: rt.C, rt: rt}
	}
	e := register(d, nil)
	return &Timer{C: e.ch, e: e}
}

func AfterFunc(d Duration, f func()) *Timer {
	if real {
		return &Timer{rt: time.AfterFunc(d, f)}
	}
	e := register(d, f)
	return &Timer{e: e}
}

func After(d Duration) <-chan Time { return NewTimer(d).C }

func (t *Timer) Stop() bool {
	if t.rt != nil {
		return t.rt.Stop()
	}
	mu.Lock()
	defer mu.Unlock()
	if t.e.fired || t.e.stopped {
		return false
	}
	t.e.stopped = true
	removeLocked(t.e)
	return true
}

func (t *Timer) Reset(d Duration) bool {
	if t.rt != nil {
		return t.rt.Reset(d)
	}
	active := t.Stop()
	mu.Lock()
	seq++
	t.e.seq, t.e.d, t.e.deadline, t.e.fired, t.e.stopped = seq, d, offset+d, false, false
	pending = append(pending, t.e)
	mu.Unlock()
	return active
}

func removeLocked(e *entry) {
	for i, p := range pending {
		if p == e {
			pending = append(pending[:i], pending[i+1:]...)
			return
		}
	}
}

// PendingInfo describes one parked sleeper/timer.
type PendingInfo struct {
	Seq  uint64
	Goid int64
	D    Duration
}

// Pending lists parked sleepers/timers in registration order.
func Pending() []PendingInfo {
	mu.Lock()
	defer mu.Unlock()
	out := make([]PendingInfo, 0, len(pending))
	for _, e := range pending {
		out = append(out, PendingInfo{e.seq, e.goid, e.d})
	}
	sort.Slice(out, func(i, j int) bool { return out[i].Seq < out[j].Seq })
	return out
}

// CountPending returns the number of parked entries with duration d.
func CountPending(d Duration) int {
	mu.Lock()
	defer mu.Unlock()
	n := 0
	for _, e := range pending {
		if e.d == d {
			n++
		}
	}
	return n
}

// WaitPending blocks (real time, bounded) until at least n entries with
// duration d are parked. It is the quiescence barrier for background loops.
func WaitPending(d Duration, n int, realTimeout time.Duration) bool {
	deadline := time.Now().Add(realTimeout)
	for {
		if CountPending(d) >= n {
			return true
		}
		if time.Now().After(deadline) {
			return false
		}
		time.Sleep(50 * time.Microsecond)
	}
}

// Fire releases the oldest parked entry whose duration is d: the clock is
// moved to its deadline if that lies ahead, and the sleeper is woken (or the
// AfterFunc run in a new goroutine). If wait is set, Fire returns only when
// the goroutine that owned the entry has parked on a new sleeper of the same
// duration (one loop iteration = one atomic event) or realTimeout passed.
// The second result is false when the barrier timed out.
func Fire(d Duration, wait bool, realTimeout time.Duration) (fired bool, settled bool) {
	return FireMatch(func(p PendingInfo) bool { return p.D == d }, wait, realTimeout)
}

// FireGoid fires the oldest entry registered by goroutine goid.
func FireGoid(goid int64) bool {
	f, _ := FireMatch(func(p PendingInfo) bool { return p.Goid == goid }, false, 0)
	return f
}

// HasPendingGoid reports whether goroutine goid is parked on a timer.
func HasPendingGoid(goid int64) bool {
	mu.Lock()
	defer mu.Unlock()
	for _, p := range pending {
		if p.goid == goid {
			return true
		}
	}
	return false
}

// FireMatch is Fire with an arbitrary selector (oldest match wins).
func FireMatch(match func(PendingInfo) bool, wait bool, realTimeout time.Duration) (fired bool, settled bool) {
	mu.Lock()
	var e *entry
	for _, p := range pending {
		if match(PendingInfo{p.seq, p.goid, p.d}) && (e == nil || p.seq < e.seq) {
			e = p
		}
	}
	if e == nil {
		mu.Unlock()
		return false, true
	}
	removeLocked(e)
	e.fired = true
	if e.deadline > offset {
		offset = e.deadline
	}
	now := time.Unix(Epoch, 0).Add(offset)
	goid := e.goid
	mu.Unlock()
	if e.fn != nil {
		go e.fn()
		return true, true
	}
	e.ch <- now
	if !wait {
		return true, true
	}
	deadline := time.Now().Add(realTimeout)
	for {
		mu.Lock()
		ok := false
		for _, p := range pending {
			if p.goid == goid {
				ok = true
			}
		}
		mu.Unlock()
		if ok {
			return true, true
		}
		if time.Now().After(deadline) {
			return true, false
		}
		time.Sleep(20 * time.Microsecond)
	}
}

// ReleaseSleeps wakes every parked plain sleeper (used after an instance was closed so
// that helper goroutines that slept on virtual time can exit).
func ReleaseSleeps() {
	mu.Lock()
	var ps, keep []*entry
	for _, e := range pending {
		if e.sleep {
			ps = append(ps, e)
		} else {
			keep = append(keep, e)
		}
	}
	pending = keep
	now := time.Unix(Epoch, 0).Add(offset)
	mu.Unlock()
	for _, e := range ps {
		e.fired = true
		if e.fn == nil {
			select {
			case e.ch <- now:
			default:
			}
		}
	}
}

// Ticker is a virtual ticker: every tick is one parked timer that the harness fires.
type Ticker struct {
	C    <-chan Time
	c    chan Time
	d    Duration
	rt   *time.Ticker
	stop chan struct{}
}

func NewTicker(d Duration) *Ticker {
	if real {
		rt := time.NewTicker(d)
		return &Ticker{C: rt.C, rt: rt}
	}
	c := make(chan Time, 1)
	t := &Ticker{C: c, c: c, d: d, stop: make(chan struct{})}
	go func() {
		for {
			e := register(d, nil)
			select {
			case now := <-e.ch:
				select {
				case c <- now:
				default:
				}
			case <-t.stop:
				mu.Lock()
				removeLocked(e)
				mu.Unlock()
				return
			}
		}
	}()
	return t
}

func (t *Ticker) Stop() {
	if t.rt != nil {
		t.rt.Stop()
		return
	}
	select {
	case <-t.stop:
	default:
		close(t.stop)
	}
}

func (t *Ticker) Reset(d Duration) {
	if t.rt != nil {
		t.rt.Reset(d)
	}
}

func Tick(d Duration) <-chan Time { return NewTicker(d).C }

func UnixMicro(us int64) Time { return time.UnixMicro(us) }
func ParseInLocation(l, v string, loc *Location) (Time, error) {
	return time.ParseInLocation(l, v, loc)
}
func LoadLocation(name string) (*Location, error) { return time.LoadLocation(name) }
func FixedZone(name string, off int) *Location    { return time.FixedZone(name, off) }

const (
	StampMilli = time.StampMilli
	Stamp      = time.Stamp
	RFC1123Z   = time.RFC1123Z
	RFC850     = time.RFC850
	RubyDate   = time.RubyDate
	RFC822Z    = time.RFC822Z
	Sunday     = time.Sunday
	Monday     = time.Monday
	Saturday   = time.Saturday
)
