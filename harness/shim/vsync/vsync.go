// Package vsync stands in for "sync" in the recompiled repository sources.
// Mutex wraps a real mutex; under a controlled execution Lock is a scheduling
// point and a thread waiting for a held mutex is disabled. In every mode a
// goroutine locking a mutex it already holds panics instead of hanging, and
// Unlock of an unlocked mutex panics as with the real type.
package vsync

import (
	"fmt"
	"os"
	"sync"
	"sync/atomic"

	"verifh/vsched"
)

type (
	WaitGroup = sync.WaitGroup
	Once      = sync.Once
	Locker    = sync.Locker
	Map       = sync.Map
	Pool      = sync.Pool
	Cond      = sync.Cond
)

func NewCond(l Locker) *Cond { return sync.NewCond(l) }

// Tracking can be switched off for the free-running race pass so that the
// shim adds no synchronisation of its own beyond the real mutex.
var Tracking atomic.Bool

func init() { Tracking.Store(os.Getenv("VERIF_RACE") != "1") }

type Mutex struct {
	mu    sync.Mutex
	owner atomic.Int64 // goroutine id of holder, 0 = free
}

// registry of mutexes ever locked, to check "all free" at the end of an execution.
var (
	regMu sync.Mutex
	reg   = map[*Mutex]struct{}{}
)

func register(m *Mutex) {
	regMu.Lock()
	reg[m] = struct{}{}
	regMu.Unlock()
}

// HeldMutexes returns how many registered mutexes are currently held.
func HeldMutexes() int {
	regMu.Lock()
	defer regMu.Unlock()
	n := 0
	for m := range reg {
		if m.owner.Load() != 0 {
			n++
		}
	}
	return n
}

// ResetRegistry forgets all mutexes (call between instances).
func ResetRegistry() {
	regMu.Lock()
	reg = map[*Mutex]struct{}{}
	regMu.Unlock()
}

func (m *Mutex) Free() bool { return m.owner.Load() == 0 }

func (m *Mutex) Name() string {
	if e := vsched.Active(); e != nil {
		return e.NameOf(m, "M")
	}
	return "M?"
}

func (m *Mutex) Lock() {
	if !Tracking.Load() {
		m.mu.Lock()
		return
	}
	g := vsched.GoID()
	if m.owner.Load() == g {
		panic(fmt.Sprintf("vsync: goroutine %d locks a mutex it already holds (self-deadlock)", g))
	}
	if vsched.Active() != nil {
		vsched.Yield("lock", m)
	}
	m.mu.Lock()
	m.owner.Store(g)
	if vsched.Active() != nil {
		if t := vsched.Current(); t != nil {
			vsched.Trace(fmt.Sprintf("%s:L:%s", t.Name, m.Name()))
		}
	}
	register(m)
}

func (m *Mutex) TryLock() bool {
	if !m.mu.TryLock() {
		return false
	}
	if Tracking.Load() {
		m.owner.Store(vsched.GoID())
		register(m)
	}
	return true
}

func (m *Mutex) Unlock() {
	if Tracking.Load() {
		m.owner.Store(0)
	}
	m.mu.Unlock()
}

// RWMutex is modelled as an exclusive mutex (sound for deadlock/atomicity
// exploration, conservative for reader concurrency).
type RWMutex struct{ Mutex }

func (m *RWMutex) RLock()          { m.Lock() }
func (m *RWMutex) RUnlock()        { m.Unlock() }
func (m *RWMutex) TryRLock() bool  { return m.TryLock() }
func (m *RWMutex) RLocker() Locker { return rl{m} }

type rl struct{ m *RWMutex }

func (r rl) Lock()   { r.m.RLock() }
func (r rl) Unlock() { r.m.RUnlock() }

func OnceFunc(f func()) func() { return sync.OnceFunc(f) }
