// Package vrand stands in for "crypto/rand". By default it is the real
// thing; the harness may script the answers (next value for Int, next bytes
// for Reader) so that server choice and send jitter are harness decisions.
package vrand

import (
	"crypto/rand"
	"io"
	"math/big"
	"sync"
)

var (
	mu     sync.Mutex
	intFn  func(max int64) int64
	readFn func(p []byte)
)

// SetInt installs f as the answer to rand.Int(_, max) (nil = real).
func SetInt(f func(max int64) int64) { mu.Lock(); intFn = f; mu.Unlock() }

// SetRead installs f to fill buffers read from Reader (nil = real).
func SetRead(f func(p []byte)) { mu.Lock(); readFn = f; mu.Unlock() }

type reader struct{}

func (reader) Read(p []byte) (int, error) {
	mu.Lock()
	f := readFn
	mu.Unlock()
	if f != nil {
		f(p)
		return len(p), nil
	}
	return rand.Reader.Read(p)
}

var Reader io.Reader = reader{}

func Int(r io.Reader, max *big.Int) (*big.Int, error) {
	mu.Lock()
	f := intFn
	mu.Unlock()
	if f != nil {
		v := f(max.Int64())
		if v < 0 || v >= max.Int64() {
			panic("vrand: scripted answer out of range")
		}
		return big.NewInt(v), nil
	}
	return rand.Int(rand.Reader, max)
}

func Read(b []byte) (int, error) { return Reader.Read(b) }

func Prime(r io.Reader, bits int) (*big.Int, error) { return rand.Prime(rand.Reader, bits) }
