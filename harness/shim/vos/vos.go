// Package vos stands in for "os" in the recompiled repository sources. All
// calls go to the real file system; every call that changes the file system
// is a numbered step after which a registered observer runs (crash-state
// capture), and, under a controlled execution with file-system points on,
// every call is a scheduling point.
package vos

import (
	"io"
	"io/fs"
	"os"
	"path/filepath"
	"strings"
	"sync"
	"sync/atomic"
	"syscall"
	"time"

	"verifh/vsched"
)

type (
	FileInfo  = fs.FileInfo
	FileMode  = fs.FileMode
	DirEntry  = fs.DirEntry
	PathError = fs.PathError
	Signal    = os.Signal
)

const (
	O_RDONLY = os.O_RDONLY
	O_WRONLY = os.O_WRONLY
	O_RDWR   = os.O_RDWR
	O_APPEND = os.O_APPEND
	O_CREATE = os.O_CREATE
	O_EXCL   = os.O_EXCL
	O_SYNC   = os.O_SYNC
	O_TRUNC  = os.O_TRUNC

	ModePerm = os.ModePerm
	ModeDir  = os.ModeDir

	PathSeparator = os.PathSeparator
)

var (
	ErrNotExist = os.ErrNotExist
	ErrExist    = os.ErrExist
	ErrClosed   = os.ErrClosed
	Args        = os.Args
	Interrupt   = os.Interrupt
)

var (
	Stdout = &File{f: os.Stdout}
	Stderr = &File{f: os.Stderr}
	Stdin  = &File{f: os.Stdin}
)

// Observer is called after each mutating step with its ordinal, the kind of
// step and the path.
type Observer func(step int, op, path string)

var (
	obsMu    sync.Mutex
	observer Observer
	steps    atomic.Int64
)

func SetObserver(o Observer) { obsMu.Lock(); observer = o; obsMu.Unlock() }
func ResetSteps()            { steps.Store(0) }
func Steps() int             { return int(steps.Load()) }

func point(op string) {
	if e := vsched.Active(); e != nil && e.PointOnFS {
		vsched.Yield("fs:"+op, nil)
	}
}

// stepMu serialises mutating steps together with their observer call, so
// that a crash image is a consistent cut: no other step runs between the
// system call and the copy of the directory.
var stepMu sync.Mutex

func begin() { stepMu.Lock() }
func abort() { stepMu.Unlock() }

func mutated(op, path string) {
	defer stepMu.Unlock()
	n := int(steps.Add(1))
	obsMu.Lock()
	o := observer
	obsMu.Unlock()
	if o != nil {
		o(n, op, path)
	}
}

type File struct {
	f    *os.File
	path string
	app  bool // opened with O_APPEND
}

// Page-granular writes. The kernel copies a write(2) into the page cache one page at a time and moves the
// file size forward after each page, without excluding readers: a concurrent read(2) - and the survivor of a
// SIGKILL, which is honoured between two pages - can see the file end at a page boundary in the middle of
// the written buffer. With SetPageTear(true, ...) a Write whose byte range crosses a page boundary is
// performed as one step per page, with a scheduling point in between. phantom[name] bytes are counted in
// front of a file when locating the boundaries: the file is treated as if that many bytes of earlier records
// preceded it, so that short histories reach the records that straddle a boundary.
const PageSize = 4096

var tear struct {
	on      atomic.Bool
	mu      sync.Mutex
	phantom map[string]int64
}

func SetPageTear(on bool, phantom map[string]int64) {
	tear.mu.Lock()
	tear.phantom = phantom
	tear.mu.Unlock()
	tear.on.Store(on)
}

// Injected failures: FailNext arms a one-shot error for the next open ("open") or write ("write") of the file
// with that base name; ClearFaults disarms whatever was not consumed.
var faults struct {
	mu sync.Mutex
	m  map[string]string
}

func FailNext(base, stage string) {
	faults.mu.Lock()
	if faults.m == nil {
		faults.m = map[string]string{}
	}
	faults.m[base] = stage
	faults.mu.Unlock()
}

func ClearFaults() {
	faults.mu.Lock()
	faults.m = nil
	faults.mu.Unlock()
}

func takeFault(path, stage string) error {
	faults.mu.Lock()
	defer faults.mu.Unlock()
	b := filepath.Base(path)
	if faults.m[b] != stage {
		return nil
	}
	delete(faults.m, b)
	if stage == "open" {
		return &os.PathError{Op: "open", Path: path, Err: syscall.EACCES}
	}
	return &os.PathError{Op: "write", Path: path, Err: syscall.ENOSPC}
}

func (f *File) chunks(b []byte) [][]byte {
	if !tear.on.Load() || len(b) == 0 {
		return [][]byte{b}
	}
	var off int64
	if f.app {
		fi, err := f.f.Stat()
		if err != nil || !fi.Mode().IsRegular() {
			return [][]byte{b}
		}
		off = fi.Size()
	} else {
		o, err := f.f.Seek(0, io.SeekCurrent)
		if err != nil {
			return [][]byte{b}
		}
		off = o
	}
	tear.mu.Lock()
	off += tear.phantom[filepath.Base(f.path)]
	tear.mu.Unlock()
	var out [][]byte
	for len(b) > 0 {
		n := int(PageSize - off%PageSize)
		if n > len(b) {
			n = len(b)
		}
		out = append(out, b[:n])
		b, off = b[n:], off+int64(n)
	}
	return out
}

func wrap(f *os.File, err error, path string) (*File, error) {
	if err != nil {
		return nil, err
	}
	return &File{f: f, path: path}, nil
}

func Create(name string) (*File, error) {
	point("create")
	begin()
	f, err := wrapPath(name)(os.Create(name))
	if err == nil {
		mutated("create", name)
	} else {
		abort()
	}
	return f, err
}

func wrapPath(name string) func(*os.File, error) (*File, error) {
	return func(f *os.File, err error) (*File, error) { return wrap(f, err, name) }
}

func Open(name string) (*File, error) {
	point("open")
	return wrapPath(name)(os.Open(name))
}

func OpenFile(name string, flag int, perm FileMode) (*File, error) {
	point("openfile")
	if flag&(O_WRONLY|O_RDWR) != 0 {
		if err := takeFault(name, "open"); err != nil {
			return nil, err
		}
	}
	existed := true
	if flag&(O_CREATE|O_TRUNC) != 0 {
		if _, err := os.Stat(name); err != nil {
			existed = false
		}
	}
	begin()
	f, err := wrapPath(name)(os.OpenFile(name, flag, perm))
	if err == nil {
		f.app = flag&O_APPEND != 0
	}
	if err == nil && ((flag&O_CREATE != 0 && !existed) || flag&O_TRUNC != 0) {
		mutated("openfile", name)
	} else {
		abort()
	}
	return f, err
}

func (f *File) Name() string                       { return f.f.Name() }
func (f *File) Fd() uintptr                        { return f.f.Fd() }
func (f *File) Stat() (FileInfo, error)            { return f.f.Stat() }
func (f *File) Sync() error                        { return f.f.Sync() }
func (f *File) Seek(o int64, w int) (int64, error) {
	point("seek") // the file position is shared by everybody who uses this handle
	return f.f.Seek(o, w)
}
func (f *File) Truncate(n int64) error {
	point("truncate")
	begin()
	err := f.f.Truncate(n)
	if err == nil {
		mutated("truncate", f.path)
	} else {
		abort()
	}
	return err
}

func (f *File) Read(b []byte) (int, error) {
	point("read")
	return f.f.Read(b)
}

func (f *File) ReadAt(b []byte, off int64) (int, error) {
	point("readat")
	return f.f.ReadAt(b, off)
}

func (f *File) Write(b []byte) (int, error) {
	if !strings.HasSuffix(f.path, ".log") {
		// log lines are not part of any persisted state: no scheduling point for them
		point("write")
	}
	if f.f == os.Stdout || f.f == os.Stderr {
		return f.f.Write(b)
	}
	if err := takeFault(f.path, "write"); err != nil {
		return 0, err
	}
	total := 0
	cs := f.chunks(b)
	for i, c := range cs {
		op := "write"
		if i < len(cs)-1 {
			op = "write-partial" // the system call has not returned yet
		}
		if i > 0 {
			point("write-page")
		}
		begin()
		n, err := f.f.Write(c)
		mutated(op, f.path)
		total += n
		if err != nil {
			return total, err
		}
	}
	return total, nil
}

func (f *File) WriteString(s string) (int, error) { return f.Write([]byte(s)) }

func (f *File) WriteAt(b []byte, off int64) (int, error) {
	point("writeat")
	begin()
	n, err := f.f.WriteAt(b, off)
	mutated("writeat", f.path)
	return n, err
}

func (f *File) Close() error { return f.f.Close() }

func (f *File) ReadDir(n int) ([]DirEntry, error) { return f.f.ReadDir(n) }

func ReadFile(name string) ([]byte, error) {
	point("readfile")
	return os.ReadFile(name)
}

// WriteFile is performed as the three system-level steps it consists of so
// that "present but empty" exists as a step boundary.
func WriteFile(name string, data []byte, perm FileMode) error {
	point("writefile-open")
	if err := takeFault(name, "open"); err != nil {
		return err
	}
	begin()
	f, err := os.OpenFile(name, os.O_WRONLY|os.O_CREATE|os.O_TRUNC, perm)
	if err != nil {
		abort()
		return err
	}
	mutated("writefile-open", name)
	point("writefile-write")
	if err := takeFault(name, "write"); err != nil {
		f.Close()
		return err
	}
	begin()
	_, err = f.Write(data)
	mutated("writefile-write", name)
	if err1 := f.Close(); err1 != nil && err == nil {
		err = err1
	}
	return err
}

func MkdirAll(path string, perm FileMode) error {
	begin()
	_, serr := os.Stat(path)
	err := os.MkdirAll(path, perm)
	if err == nil && serr != nil {
		mutated("mkdirall", path)
	} else {
		abort()
	}
	return err
}

func Mkdir(path string, perm FileMode) error {
	begin()
	err := os.Mkdir(path, perm)
	if err == nil {
		mutated("mkdir", path)
	} else {
		abort()
	}
	return err
}

func Remove(name string) error {
	begin()
	err := os.Remove(name)
	if err == nil {
		mutated("remove", name)
	} else {
		abort()
	}
	return err
}

func RemoveAll(name string) error {
	begin()
	err := os.RemoveAll(name)
	mutated("removeall", name)
	return err
}

func Rename(a, b string) error {
	point("rename")
	begin()
	err := os.Rename(a, b)
	if err == nil {
		mutated("rename", b)
	} else {
		abort()
	}
	return err
}

func Stat(name string) (FileInfo, error)            { return os.Stat(name) }
func Lstat(name string) (FileInfo, error)           { return os.Lstat(name) }
func ReadDir(name string) ([]DirEntry, error)       { return os.ReadDir(name) }
func TempDir() string                               { return os.TempDir() }
func MkdirTemp(dir, pattern string) (string, error) { return os.MkdirTemp(dir, pattern) }
func Getenv(k string) string                        { return os.Getenv(k) }
func LookupEnv(k string) (string, bool)             { return os.LookupEnv(k) }
func Exit(code int)                                 { os.Exit(code) }
func Getpid() int                                   { return os.Getpid() }
func Getwd() (string, error)                        { return os.Getwd() }
func UserHomeDir() (string, error)                  { return os.UserHomeDir() }
func Hostname() (string, error)                     { return os.Hostname() }
func IsNotExist(err error) bool                     { return os.IsNotExist(err) }
func IsExist(err error) bool                        { return os.IsExist(err) }
func IsPermission(err error) bool                   { return os.IsPermission(err) }
func Chmod(name string, m FileMode) error           { return os.Chmod(name, m) }

// Truncate changes the size of the named file (a mutating step).
func Truncate(name string, size int64) error {
	point("truncate")
	begin()
	err := os.Truncate(name, size)
	if err == nil {
		mutated("truncate", name)
	} else {
		abort()
	}
	return err
}

func Link(oldname, newname string) error {
	begin()
	err := os.Link(oldname, newname)
	if err == nil {
		mutated("link", newname)
	} else {
		abort()
	}
	return err
}

func Symlink(oldname, newname string) error {
	begin()
	err := os.Symlink(oldname, newname)
	if err == nil {
		mutated("symlink", newname)
	} else {
		abort()
	}
	return err
}

func CreateTemp(dir, pattern string) (*File, error) {
	begin()
	f, err := os.CreateTemp(dir, pattern)
	if err != nil {
		abort()
		return nil, err
	}
	mutated("create", f.Name())
	return &File{f: f, path: f.Name()}, nil
}

func Chtimes(name string, a, m time.Time) error { return os.Chtimes(name, a, m) }
func Chown(name string, uid, gid int) error     { return os.Chown(name, uid, gid) }
func Readlink(name string) (string, error)      { return os.Readlink(name) }
func SameFile(a, b FileInfo) bool               { return os.SameFile(a, b) }
func DirFS(dir string) fs.FS                    { return os.DirFS(dir) }
func Environ() []string                         { return os.Environ() }
func Setenv(k, v string) error                  { return os.Setenv(k, v) }
func Unsetenv(k string) error                   { return os.Unsetenv(k) }
func Executable() (string, error)               { return os.Executable() }
func Getuid() int                               { return os.Getuid() }
func UserCacheDir() (string, error)             { return os.UserCacheDir() }
func UserConfigDir() (string, error)            { return os.UserConfigDir() }

func (f *File) Chmod(m FileMode) error               { return f.f.Chmod(m) }
func (f *File) SetDeadline(t time.Time) error        { return f.f.SetDeadline(t) }
func (f *File) Readdirnames(n int) ([]string, error) { return f.f.Readdirnames(n) }
func (f *File) Readdir(n int) ([]FileInfo, error)    { return f.f.Readdir(n) }
func (f *File) ReadFrom(r io.Reader) (int64, error) {
	b, err := io.ReadAll(r)
	if err != nil {
		return 0, err
	}
	n, err := f.Write(b)
	return int64(n), err
}
