// Package vmrand stands in for "math/rand". By default it is the real
// package; the harness may install an answer function for Intn.
package vmrand

import (
	"math/rand"
	"sync"
)

var (
	mu     sync.Mutex
	answer func(n int) int
	Calls  int
)

// SetIntn installs f as the answer to every Intn(n) call (nil = real).
func SetIntn(f func(n int) int) { mu.Lock(); answer = f; mu.Unlock() }

func Seed(s int64) { rand.Seed(s) }

func Intn(n int) int {
	mu.Lock()
	f := answer
	Calls++
	mu.Unlock()
	if f != nil {
		return f(n)
	}
	return rand.Intn(n)
}

func Int() int                        { return rand.Int() }
func Int63() int64                    { return rand.Int63() }
func Int63n(n int64) int64            { return rand.Int63n(n) }
func Int31n(n int32) int32            { return rand.Int31n(n) }
func Uint32() uint32                  { return rand.Uint32() }
func Uint64() uint64                  { return rand.Uint64() }
func Float64() float64                { return rand.Float64() }
func Float32() float32                { return rand.Float32() }
func Perm(n int) []int                { return rand.Perm(n) }
func Shuffle(n int, f func(i, j int)) { rand.Shuffle(n, f) }
func Read(p []byte) (int, error)      { return rand.Read(p) }

type Rand = rand.Rand
type Source = rand.Source

func New(s Source) *Rand       { return rand.New(s) }
func NewSource(s int64) Source { return rand.NewSource(s) }
