// Package vioutil stands in for "io/ioutil".
package vioutil

import (
	"io"
	"io/fs"

	"verifh/shim/vos"
)

func ReadFile(name string) ([]byte, error) { return vos.ReadFile(name) }
func WriteFile(name string, data []byte, perm fs.FileMode) error {
	return vos.WriteFile(name, data, perm)
}
func ReadAll(r io.Reader) ([]byte, error) { return io.ReadAll(r) }
func NopCloser(r io.Reader) io.ReadCloser { return io.NopCloser(r) }

var Discard = io.Discard

func ReadDir(name string) ([]fs.FileInfo, error) {
	es, err := vos.ReadDir(name)
	if err != nil {
		return nil, err
	}
	out := make([]fs.FileInfo, 0, len(es))
	for _, e := range es {
		fi, err := e.Info()
		if err != nil {
			return nil, err
		}
		out = append(out, fi)
	}
	return out, nil
}
