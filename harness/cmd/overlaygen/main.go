// overlaygen regenerates, from the current working tree of the repository,
// copies of every non-test Go file of the given packages whose imports of
// sync/time/os/io/ioutil/net/crypto/rand/math/rand are redirected to the
// harness shims (function bodies untouched), and writes a `go build -overlay`
// JSON mapping the originals to the copies.
//
// usage: overlaygen -repo /repo -out /verif/.cache/overlay [-extra dir]...
package main

import (
	"encoding/json"
	"flag"
	"fmt"
	"go/ast"
	"go/format"
	"go/parser"
	"go/token"
	"os"
	"path/filepath"
	"sort"
	"strconv"
	"strings"
)

var rewrite = map[string]struct{ path, name string }{
	"sync":        {"verifh/shim/vsync", "sync"},
	"time":        {"verifh/shim/vtime", "time"},
	"os":          {"verifh/shim/vos", "os"},
	"io/ioutil":   {"verifh/shim/vioutil", "ioutil"},
	"net":         {"verifh/shim/vnet", "net"},
	"crypto/rand": {"verifh/shim/vrand", "rand"},
	"math/rand":   {"verifh/shim/vmrand", "rand"},
}

type multi []string

func (m *multi) String() string     { return strings.Join(*m, ",") }
func (m *multi) Set(s string) error { *m = append(*m, s); return nil }

func main() {
	repo := flag.String("repo", "/repo", "repository root")
	out := flag.String("out", "", "output directory")
	pkgs := flag.String("pkgs", "glow,server,client", "package directories")
	var extras multi
	flag.Var(&extras, "add", "dir=pkgdir: add every .go file of dir to repo package pkgdir (overlay-only files)")
	flag.Parse()
	if *out == "" {
		fmt.Fprintln(os.Stderr, "need -out")
		os.Exit(2)
	}
	os.RemoveAll(filepath.Join(*out, "src"))
	replace := map[string]string{}
	var rewritten, total int
	for _, pkg := range strings.Split(*pkgs, ",") {
		dir := filepath.Join(*repo, pkg)
		ents, err := os.ReadDir(dir)
		if err != nil {
			fatal(err)
		}
		for _, e := range ents {
			n := e.Name()
			if e.IsDir() || !strings.HasSuffix(n, ".go") || strings.HasSuffix(n, "_test.go") {
				continue
			}
			total++
			src := filepath.Join(dir, n)
			dst := filepath.Join(*out, "src", pkg, n)
			changed, err := rewriteFile(src, dst)
			if err != nil {
				fatal(fmt.Errorf("%s: %v", src, err))
			}
			if changed {
				replace[src] = dst
				rewritten++
			}
		}
	}
	for _, ex := range extras {
		parts := strings.SplitN(ex, "=", 2)
		if len(parts) != 2 {
			fatal(fmt.Errorf("bad -add %q", ex))
		}
		ents, err := os.ReadDir(parts[0])
		if err != nil {
			fatal(err)
		}
		for _, e := range ents {
			if strings.HasSuffix(e.Name(), ".go") {
				replace[filepath.Join(*repo, parts[1], e.Name())] = filepath.Join(parts[0], e.Name())
			}
		}
	}
	j, _ := json.MarshalIndent(map[string]interface{}{"Replace": replace}, "", " ")
	if err := os.WriteFile(filepath.Join(*out, "overlay.json"), j, 0644); err != nil {
		fatal(err)
	}
	keys := make([]string, 0, len(replace))
	for k := range replace {
		keys = append(keys, k)
	}
	sort.Strings(keys)
	fmt.Printf("overlaygen: %d of %d files rewritten\n", rewritten, total)
}

func fatal(err error) {
	fmt.Fprintln(os.Stderr, "overlaygen:", err)
	os.Exit(1)
}

func rewriteFile(src, dst string) (bool, error) {
	fset := token.NewFileSet()
	f, err := parser.ParseFile(fset, src, nil, parser.ParseComments)
	if err != nil {
		return false, err
	}
	changed := false
	for _, imp := range f.Imports {
		p, _ := strconv.Unquote(imp.Path.Value)
		r, ok := rewrite[p]
		if !ok {
			continue
		}
		if imp.Name == nil {
			imp.Name = ast.NewIdent(r.name)
		}
		imp.Path.Value = strconv.Quote(r.path)
		changed = true
	}
	if !changed {
		return false, nil
	}
	if err := os.MkdirAll(filepath.Dir(dst), 0755); err != nil {
		return false, err
	}
	var sb strings.Builder
	// Keep positions meaningful in stack traces.
	fmt.Fprintf(&sb, "//line %s:1\n", src)
	_ = sb
	w, err := os.Create(dst)
	if err != nil {
		return false, err
	}
	defer w.Close()
	if err := format.Node(w, fset, f); err != nil {
		return false, err
	}
	return true, nil
}
