// overlaygen regenerates, from the current working tree of the repository,
// copies of every non-test Go file of the given packages whose imports of
// sync/time/os/io/ioutil/net/crypto/rand/math/rand are redirected to the
// harness shims (function bodies untouched), and writes a `go build -overlay`
// JSON mapping the originals to the copies.
//
// usage: overlaygen -repo /repo -out /verif/.cache/overlay [-extra dir]...
package main

import (
	"encoding/json"
	"flag"
	"fmt"
	"go/ast"
	"go/format"
	"go/importer"
	"go/parser"
	"go/token"
	"go/types"
	"os"
	"path/filepath"
	"sort"
	"strconv"
	"strings"
)

var rewrite = map[string]struct{ path, name string }{
	"sync":        {"verifh/shim/vsync", "sync"},
	"time":        {"verifh/shim/vtime", "time"},
	"os":          {"verifh/shim/vos", "os"},
	"io/ioutil":   {"verifh/shim/vioutil", "ioutil"},
	"net":         {"verifh/shim/vnet", "net"},
	"crypto/rand": {"verifh/shim/vrand", "rand"},
	"math/rand":   {"verifh/shim/vmrand", "rand"},
}

type multi []string

func (m *multi) String() string     { return strings.Join(*m, ",") }
func (m *multi) Set(s string) error { *m = append(*m, s); return nil }

func main() {
	repo := flag.String("repo", "/repo", "repository root")
	out := flag.String("out", "", "output directory")
	pkgs := flag.String("pkgs", "glow,server,client", "package directories")
	flag.String("harness", "/verif/harness", "harness module root (for the shim packages)")
	var extras multi
	flag.Var(&extras, "add", "dir=pkgdir: add every .go file of dir to repo package pkgdir (overlay-only files)")
	flag.Parse()
	if *out == "" {
		fmt.Fprintln(os.Stderr, "need -out")
		os.Exit(2)
	}
	os.RemoveAll(filepath.Join(*out, "src"))
	replace := map[string]string{}
	var rewritten, total int
	for _, pkg := range strings.Split(*pkgs, ",") {
		dir := filepath.Join(*repo, pkg)
		ents, err := os.ReadDir(dir)
		if err != nil {
			fatal(err)
		}
		for _, e := range ents {
			n := e.Name()
			if e.IsDir() || !strings.HasSuffix(n, ".go") || strings.HasSuffix(n, "_test.go") {
				continue
			}
			total++
			src := filepath.Join(dir, n)
			dst := filepath.Join(*out, "src", pkg, n)
			changed, err := rewriteFile(src, dst)
			if err != nil {
				fatal(fmt.Errorf("%s: %v", src, err))
			}
			if changed {
				replace[src] = dst
				rewritten++
			}
		}
	}
	for _, ex := range extras {
		parts := strings.SplitN(ex, "=", 2)
		if len(parts) != 2 {
			fatal(fmt.Errorf("bad -add %q", ex))
		}
		ents, err := os.ReadDir(parts[0])
		if err != nil {
			fatal(err)
		}
		for _, e := range ents {
			if strings.HasSuffix(e.Name(), ".go") {
				replace[filepath.Join(*repo, parts[1], e.Name())] = filepath.Join(parts[0], e.Name())
			}
		}
	}
	// identifiers the shims lack become plain pass-throughs (compile, but not instrumented)
	passthrough := map[string][]string{}
	harness := flag.Lookup("harness").Value.String()
	for std, names := range used {
		r := rewrite[std]
		shimDir := filepath.Join(harness, strings.TrimPrefix(r.path, "verifh/"))
		have := exportedNames(shimDir)
		var missing []string
		for n := range names {
			if !have[n] {
				missing = append(missing, n)
			}
		}
		if len(missing) == 0 {
			continue
		}
		sort.Strings(missing)
		src, ok := passthroughFile(filepath.Base(shimDir), std, missing)
		if !ok {
			continue
		}
		gen := filepath.Join(*out, "src", "shim", filepath.Base(shimDir)+"_zz_passthrough.go")
		os.MkdirAll(filepath.Dir(gen), 0755)
		if err := os.WriteFile(gen, []byte(src), 0644); err != nil {
			fatal(err)
		}
		replace[filepath.Join(shimDir, "zz_passthrough.go")] = gen
		passthrough[std] = missing
		fmt.Printf("overlaygen: %s: pass-through (not instrumented) for %v\n", std, missing)
	}
	pj, _ := json.Marshal(passthrough)
	os.WriteFile(filepath.Join(*out, "passthrough.json"), pj, 0644)
	j, _ := json.MarshalIndent(map[string]interface{}{"Replace": replace}, "", " ")
	if err := os.WriteFile(filepath.Join(*out, "overlay.json"), j, 0644); err != nil {
		fatal(err)
	}
	keys := make([]string, 0, len(replace))
	for k := range replace {
		keys = append(keys, k)
	}
	sort.Strings(keys)
	fmt.Printf("overlaygen: %d of %d files rewritten\n", rewritten, total)
}

func fatal(err error) {
	fmt.Fprintln(os.Stderr, "overlaygen:", err)
	os.Exit(1)
}

// used[std package] = identifiers the repository selects from it
var used = map[string]map[string]bool{}

func rewriteFile(src, dst string) (bool, error) {
	fset := token.NewFileSet()
	f, err := parser.ParseFile(fset, src, nil, parser.ParseComments)
	if err != nil {
		return false, err
	}
	changed := false
	local := map[string]string{} // local name -> std package
	for _, imp := range f.Imports {
		p, _ := strconv.Unquote(imp.Path.Value)
		r, ok := rewrite[p]
		if !ok {
			continue
		}
		if imp.Name == nil {
			imp.Name = ast.NewIdent(r.name)
		}
		local[imp.Name.Name] = p
		imp.Path.Value = strconv.Quote(r.path)
		changed = true
	}
	ast.Inspect(f, func(n ast.Node) bool {
		if se, ok := n.(*ast.SelectorExpr); ok {
			if id, ok := se.X.(*ast.Ident); ok && id.Obj == nil {
				if std, ok := local[id.Name]; ok {
					if used[std] == nil {
						used[std] = map[string]bool{}
					}
					used[std][se.Sel.Name] = true
				}
			}
		}
		return true
	})
	if !changed {
		return false, nil
	}
	if err := os.MkdirAll(filepath.Dir(dst), 0755); err != nil {
		return false, err
	}
	var sb strings.Builder
	// Keep positions meaningful in stack traces.
	fmt.Fprintf(&sb, "//line %s:1\n", src)
	_ = sb
	w, err := os.Create(dst)
	if err != nil {
		return false, err
	}
	defer w.Close()
	if err := format.Node(w, fset, f); err != nil {
		return false, err
	}
	return true, nil
}

func exportedNames(dir string) map[string]bool {
	out := map[string]bool{}
	fset := token.NewFileSet()
	pkgs, err := parser.ParseDir(fset, dir, nil, 0)
	if err != nil {
		return out
	}
	for _, p := range pkgs {
		for _, f := range p.Files {
			for _, d := range f.Decls {
				switch x := d.(type) {
				case *ast.FuncDecl:
					if x.Recv == nil {
						out[x.Name.Name] = true
					}
				case *ast.GenDecl:
					for _, sp := range x.Specs {
						switch y := sp.(type) {
						case *ast.TypeSpec:
							out[y.Name.Name] = true
						case *ast.ValueSpec:
							for _, n := range y.Names {
								out[n.Name] = true
							}
						}
					}
				}
			}
		}
	}
	return out
}

// passthroughFile declares each missing identifier as an alias of the real one.
func passthroughFile(pkg, std string, names []string) (string, bool) {
	imp, err := importer.ForCompiler(token.NewFileSet(), "source", nil).Import(std)
	if err != nil {
		fmt.Fprintln(os.Stderr, "overlaygen: cannot inspect", std, err)
		return "", false
	}
	var sb strings.Builder
	fmt.Fprintf(&sb, "// Code generated by overlaygen. Pass-through for identifiers the shim does not model.\npackage %s\n\nimport real %q\n\n", pkg, std)
	n := 0
	for _, name := range names {
		obj := imp.Scope().Lookup(name)
		if obj == nil {
			continue // not an identifier of the real package either: let the compiler complain
		}
		switch obj.(type) {
		case *types.TypeName:
			fmt.Fprintf(&sb, "type %s = real.%s\n", name, name)
		case *types.Const:
			fmt.Fprintf(&sb, "const %s = real.%s\n", name, name)
		default:
			fmt.Fprintf(&sb, "var %s = real.%s\n", name, name)
		}
		n++
	}
	return sb.String(), n > 0
}
