// vprod is built WITHOUT the test tag: production constants, production
// CurrentTimeslot (reading the shimmed clock). It never starts a server.
//
//	vprod consts                      -> JSON of production constants
//	vprod timeslots <shard> <nshards> <mode>   mode: boundaries | all
//	vprod current                     -> CurrentTimeslot() against the virtual clock
package main

import (
	"encoding/json"
	"fmt"
	"os"
	"strconv"
	"time"

	"github.com/glowlabs-org/gca-backend/client"
	"github.com/glowlabs-org/gca-backend/glow"
	"github.com/glowlabs-org/gca-backend/server"

	"verifh/shim/vtime"
)

type tsResult struct {
	Evaluations int64    `json:"evaluations"`
	Slots       int64    `json:"slots"`
	Violations  []string `json:"violations"`
}

func main() {
	switch os.Args[1] {
	case "consts":
		out := map[string]interface{}{
			"GenesisTime":       int64(glow.GenesisTime),
			"LocalZoneOffset":   func() int { _, off := time.Now().Zone(); return off }(),
			"GenesisExpected":   time.Date(2023, time.November, 19, 0, 0, 0, 0, time.UTC).Unix(),
			"Server":            server.VerifConsts(),
			"Client":            client.VerifConsts(),
			"PublicFiles":       server.PublicFiles,
			"MaxCapacityBuffer": server.MaxCapacityBuffer,
		}
		b, _ := json.Marshal(out)
		fmt.Println(string(b))
	case "timeslots":
		shard, _ := strconv.Atoi(os.Args[2])
		n, _ := strconv.Atoi(os.Args[3])
		b, _ := json.Marshal(timeslots(shard, n, os.Args[4]))
		fmt.Println(string(b))
	case "current":
		b, _ := json.Marshal(current())
		fmt.Println(string(b))
	}
}

const maxSlot = 14316557 // largest timeslot whose start fits genesis+2^32-1 seconds

func timeslots(shard, n int, mode string) tsResult {
	var r tsResult
	g := int64(glow.GenesisTime)
	bad := func(f string, a ...interface{}) {
		if len(r.Violations) < 5 {
			r.Violations = append(r.Violations, fmt.Sprintf(f, a...))
		}
	}
	check := func(u int64, prev *int64) {
		r.Evaluations++
		ts, err := glow.UnixToTimeslot(u)
		if u < g {
			if err == nil {
				bad("pre-genesis/unix %d (genesis%+d) accepted as timeslot %d", u, u-g, ts)
			}
			return
		}
		if err != nil {
			bad("post-genesis-refused/unix %d refused: %v", u, err)
			return
		}
		want := (u - g) / 300
		if int64(ts) != want {
			bad("wrong-slot/unix %d: timeslot %d, want %d", u, ts, want)
		}
		back := glow.TimeslotToUnix(ts)
		if back != g+want*300 {
			bad("round-trip/unix %d -> slot %d -> unix %d, want %d", u, ts, back, g+want*300)
		}
		if prev != nil {
			if int64(ts) < *prev {
				bad("not-monotone/unix %d: timeslot %d after %d", u, ts, *prev)
			}
			*prev = int64(ts)
		}
	}
	// times before genesis
	if shard == 0 {
		for u := g - 1000; u < g; u++ {
			check(u, nil)
		}
		for _, u := range []int64{0, -1, g - 300, g - 301, g - (1 << 32), -(1 << 62)} {
			check(u, nil)
		}
	}
	lo := int64(shard) * (maxSlot + 1) / int64(n)
	hi := int64(shard+1) * (maxSlot + 1) / int64(n)
	prev := int64(-1)
	if lo > 0 {
		prev = lo - 1
	}
	for s := lo; s < hi; s++ {
		r.Slots++
		base := g + s*300
		if mode == "all" {
			for u := base; u < base+300 && u-g <= (1<<32)-1; u++ {
				check(u, &prev)
			}
		} else {
			for _, u := range []int64{base, base + 1, base + 299} {
				if u-g <= (1<<32)-1 { // the domain ends at genesis+2^32-1 seconds
					check(u, &prev)
				}
			}
		}
		// the inverse direction for every timeslot
		r.Evaluations++
		if got := glow.TimeslotToUnix(uint32(s)); got != base {
			bad("slot-start/timeslot %d starts at %d, want %d", s, got, base)
		}
	}
	return r
}

func current() tsResult {
	var r tsResult
	g := int64(glow.GenesisTime)
	for _, k := range []int64{0, 1, 2, 287, 288, 2015, 2016, 2017, 4032, 100000, 55000, 14316556, 14316557} {
		for _, d := range []int64{0, 1, 150, 299} {
			u := g + k*300 + d
			vtime.SetOffset(time.Duration(u-vtime.Epoch) * time.Second)
			r.Evaluations++
			got := glow.CurrentTimeslot()
			if int64(got) != k {
				r.Violations = append(r.Violations, fmt.Sprintf("current/clock genesis+%d s: CurrentTimeslot %d, want %d", k*300+d, got, k))
			}
		}
	}
	// sub-second part of the clock must not matter
	vtime.SetOffset(time.Duration(g+300-vtime.Epoch)*time.Second - time.Nanosecond)
	r.Evaluations++
	if got := glow.CurrentTimeslot(); got != 0 {
		r.Violations = append(r.Violations, fmt.Sprintf("current/1ns before slot 1 starts: CurrentTimeslot %d, want 0", got))
	}
	return r
}
