package main

// Bridge to vlock (E5): explicit-state search over (basic block x held-lock
// set x pending defers) of every function that locks, on the SSA of /repo's
// current tree.

import (
	"encoding/json"
	"fmt"
	"os"
	"os/exec"
	"path/filepath"
	"strings"

	"verifh/ev"
)

type lockFinding struct {
	Kind, Func, Pos, What string
}

type lockResult struct {
	Functions   int           `json:"functions_with_lock_operations"`
	States      int           `json:"states"`
	Transitions int           `json:"transitions"`
	Returns     int           `json:"returns_checked"`
	Mutexes     []string      `json:"mutexes"`
	Edges       []string      `json:"acquired_while_holding"`
	Findings    []lockFinding `json:"findings"`
	Capped      []string      `json:"capped_functions"`
}

// lockPaths runs vlock and reports findings in packages whose import path
// contains one of pkgs.
func lockPaths(run *ev.Run, pkgs ...string) {
	bin := filepath.Join(filepath.Dir(os.Args[0]), "vlock")
	repo := os.Getenv("VERIF_REPO")
	if repo == "" {
		repo = "/repo"
	}
	cmd := exec.Command(bin, repo)
	cmd.Env = os.Environ()
	out, err := cmd.Output()
	var r lockResult
	if err != nil || json.Unmarshal(out, &r) != nil {
		fmt.Println("HARNESS ERROR: vlock:", err)
		run.Count("harness_errors", 1)
		return
	}
	for _, f := range r.Findings {
		mine := f.Kind == "lock-order-cycle"
		for _, p := range pkgs {
			if strings.Contains(f.Func, "/"+p+".") {
				mine = true
			}
		}
		if !mine {
			continue
		}
		fn := f.Func
		if i := strings.LastIndex(fn, "/"); i >= 0 {
			fn = fn[i+1:]
		}
		run.Violation("lock-path/"+f.Kind+"/"+fn, f)
	}
	if len(r.Capped) > 0 {
		run.NotExhaustive("lock-path search capped in " + strings.Join(r.Capped, ", "))
	}
	run.Coverage["lock_path_search"] = map[string]interface{}{"functions_with_lock_operations": r.Functions, "states": r.States, "transitions": r.Transitions, "returns_checked": r.Returns, "mutexes": r.Mutexes, "acquired_while_holding": r.Edges}
}
