package main

// C20 - timeslot arithmetic exact; production constants keep the window safe.
// (a,b) exhaustive enumeration in the production-tag binary (vprod);
// (c) acceptance comparison at both uint32 extremes on a live server;
// (d) explicit-state exploration of the rotation cadence with parameters
//     measured from the implementation, model traces replayed on the real server.

import (
	"encoding/binary"
	"encoding/json"
	"fmt"
	"os"
	"os/exec"
	"path/filepath"
	"sort"
	"strconv"
	"strings"
	"sync"
	"time"

	"github.com/glowlabs-org/gca-backend/glow"

	"verifh/pool"
)

type prodConsts struct {
	GenesisTime     int64
	GenesisExpected int64
	LocalZoneOffset int
	Server          struct {
		ReportMigrationFrequency time.Duration
		TestMode                 bool
	}
	Client struct {
		SendReportTime time.Duration
		TestMode       bool
	}
}

func vprod(args ...string) ([]byte, error) {
	bin := filepath.Join(filepath.Dir(os.Args[0]), "vprod")
	cmd := exec.Command(bin, args...)
	cmd.Env = os.Environ()
	return cmd.Output()
}

type c20Job struct {
	Part string `json:"part"` // low | high | measure | trace
	Arg  []int  `json:"arg"`
}

type c20Measure struct {
	H, Hneg, W, T, S int
}

func c20Accepts(w *stdWorld, ts uint32) (bool, string) {
	dg := signedReport(1, ts, 2, w.A.Priv)
	before := len(w.S.VerifSnapshot().Reports[1])
	if p := safely(func() { w.S.VerifInjectDatagram(dg) }); p != "" {
		return false, p
	}
	return len(w.S.VerifSnapshot().Reports[1]) > before, ""
}

func c20Run(j c20Job) *jobReport {
	rep := &jobReport{Reasons: map[string]int{}, Extra: map[string]int{}}
	switch j.Part {
	case "low":
		w, err := newStdWorld("c20low")
		if err != nil {
			rep.fail("harness/setup", err.Error())
			return rep
		}
		defer func() { w.Close(); w.Cleanup() }()
		for _, now := range j.Arg {
			w.setNow(uint32(now))
			for d := -434; d <= 434; d++ {
				ts := int64(now) + int64(d)
				if ts < 0 {
					// the pair (now, now+d mod 2^32): mathematically 2^32+d slots ahead of the clock, circularly only
					// |d| away. It must be turned away by the acceptance comparison (auxiliary observable: the log
					// line, as in part high) and must not be stored.
					logPath := filepath.Join(w.Dir, "server.log")
					fi, _ := os.Stat(logPath)
					var sz int64
					if fi != nil {
						sz = fi.Size()
					}
					got, p := c20Accepts(w, uint32(ts+1<<32))
					rep.Evals++
					if p != "" {
						rep.fail("panic/low-end-wrapped", p)
						w.Abandon()
						return rep
					}
					lb, _ := os.ReadFile(logPath)
					passed := int64(len(lb)) >= sz && !strings.Contains(string(lb[sz:]), "out of bounds timeslot")
					if got || passed {
						rep.fail("window-comparison-wrong/wrap-around-low", map[string]interface{}{"now": now, "timeslot": ts + 1<<32, "stored": got, "passed_acceptance_comparison": passed, "mathematically": false})
					}
					rep.Reasons[fmt.Sprintf("low wrapped passed=%v", passed)]++
					continue
				}
				want := d >= -432 && d <= 432 && ts < mWindow
				// each timeslot can be filled only once: skip slots already used by an earlier 'now'
				has := false
				for _, sl := range w.S.VerifSnapshot().Reports[1] {
					if int64(sl.Index) == ts {
						has = true
					}
				}
				if has {
					continue
				}
				got, p := c20Accepts(w, uint32(ts))
				rep.Evals++
				if p != "" {
					rep.fail("panic/low-end", p)
					w.Abandon()
					return rep
				}
				if got != want {
					rep.fail("window-comparison-wrong/low-end", map[string]interface{}{"now": now, "timeslot": ts, "accepted": got, "mathematically": want})
				}
				rep.Reasons[fmt.Sprintf("low accepted=%v", got)]++
			}
		}
	case "mid":
		// A server whose live window straddles 2^31 (the sign bit of a 32-bit timeslot): the same sweep as at the low
		// end, observed through what the server stores. The window is put there by a crafted zero-device history record.
		resetGlobals()
		dir := freshDir("srv")
		temp, srv := prepareServerDir(dir, "c20mid", true)
		off := uint32(2016 * 1065220) // 2147483520 = 2^31 - 128, a week boundary
		rec := weekRecord{Offset: off - mWeek}
		must(os.WriteFile(filepath.Join(dir, "allDeviceStats.dat"), refWeekBytes(rec), 0644))
		gca := key("gca")
		must(os.WriteFile(filepath.Join(dir, "gcaPubKey.dat"), gca.Pub[:], 0644))
		a := key("devA")
		ea := authFor(1, a, 1000)
		ea.Signature = glow.Sign(refAuthSigningBytes(ea), gca.Priv)
		must(os.WriteFile(filepath.Join(dir, "equipment-authorizations.dat"), refAuthBytes(ea), 0644))
		glow.SetCurrentTimeslot(off + 10)
		sw := &srvWorld{Dir: dir, Temp: temp, Srv: srv}
		if err := sw.start(); err != nil {
			rep.fail("harness/mid-start", err.Error())
			return rep
		}
		defer func() { sw.Close(); sw.Cleanup() }()
		if got := sw.S.VerifSnapshot().ReportsOffset; got != off {
			rep.fail("harness/mid-offset", fmt.Sprint(got, off))
			return rep
		}
		used := map[int64]bool{}
		for _, rel := range j.Arg {
			now := int64(off) + int64(rel)
			glow.SetCurrentTimeslot(uint32(now))
			for d := -434; d <= 434; d++ {
				ts := now + int64(d)
				if used[ts] {
					continue
				}
				want := d >= -432 && d <= 432 && ts >= int64(off) && ts < int64(off)+mWindow
				before := len(sw.S.VerifSnapshot().Reports[1])
				if p := safely(func() { sw.S.VerifInjectDatagram(signedReport(1, uint32(ts), 2, a.Priv)) }); p != "" {
					rep.fail("panic/sign-bit-window", map[string]interface{}{"now": now, "timeslot": ts, "panic": firstLine(p)})
					sw.Abandon()
					return rep
				}
				rep.Evals++
				got := len(sw.S.VerifSnapshot().Reports[1]) > before
				if got {
					used[ts] = true
				}
				if got != want {
					rep.fail("window-comparison-wrong/sign-bit", map[string]interface{}{"offset": off, "now": now, "timeslot": ts, "accepted": got, "mathematically": want})
				}
				rep.Reasons[fmt.Sprintf("mid accepted=%v", got)]++
			}
		}
	case "high":
		// A server whose clock is within 432 slots of the end of the uint32 range. No window can hold such
		// reports without its own end overflowing, so the acceptance comparison is observed through the
		// server's log: a report turned away by it is logged as "out of bounds timeslot" (auxiliary observable).
		resetGlobals()
		dir := freshDir("srv")
		temp, srv := prepareServerDir(dir, "c20high", true)
		off := uint32(2016 * 2130438) // 4294963008, a week boundary
		rec := weekRecord{Offset: off - mWeek}
		must(os.WriteFile(filepath.Join(dir, "allDeviceStats.dat"), refWeekBytes(rec), 0644))
		gca := key("gca")
		must(os.WriteFile(filepath.Join(dir, "gcaPubKey.dat"), gca.Pub[:], 0644))
		a := key("devA")
		ea := authFor(1, a, 1000)
		ea.Signature = glow.Sign(refAuthSigningBytes(ea), gca.Priv)
		must(os.WriteFile(filepath.Join(dir, "equipment-authorizations.dat"), refAuthBytes(ea), 0644))
		logPath := filepath.Join(dir, "server.log")
		for _, back := range j.Arg {
			now := uint32(1<<32 - 1 - uint32(back))
			glow.SetCurrentTimeslot(now)
			sw := &srvWorld{Dir: dir, Temp: temp, Srv: srv}
			if err := sw.start(); err != nil {
				rep.fail("harness/high-start", err.Error())
				return rep
			}
			for d := -434; d <= 434; d++ {
				ts := int64(now) + int64(d)
				want := d >= -432 && d <= 432
				wrapped := false
				if ts > 1<<32-1 {
					// the pair (now, now+d mod 2^32): a timeslot almost 2^32 slots behind the clock, circularly d away
					ts -= 1 << 32
					want, wrapped = false, true
				}
				fi, _ := os.Stat(logPath)
				var p string
				p = safely(func() { sw.S.VerifInjectDatagram(signedReport(1, uint32(ts), 2, a.Priv)) })
				rep.Evals++
				if p != "" {
					rep.fail("panic/high-end", map[string]interface{}{"now": now, "timeslot": ts, "panic": firstLine(p)})
					sw.Abandon()
					return rep
				}
				lb, _ := os.ReadFile(logPath)
				tail := string(lb[fi.Size():])
				got := !strings.Contains(tail, "out of bounds timeslot")
				if strings.Contains(tail, "decoding failed") {
					rep.fail("harness/high-report-not-parsed", tail)
					sw.Close()
					return rep
				}
				if got != want {
					sig := "window-comparison-wrong/high-end"
					if wrapped {
						sig = "window-comparison-wrong/wrap-around-high"
					}
					rep.fail(sig, map[string]interface{}{"now": now, "timeslot": ts, "passed_acceptance_comparison": got, "mathematically": want, "log": tail})
				}
				rep.Reasons[fmt.Sprintf("high wrapped=%v passed=%v", wrapped, got)]++
			}
			sw.Close()
		}
		os.RemoveAll(dir)
	case "measure":
		m := c20Measure{H: -1, Hneg: -1, W: -1, T: -1, S: -1}
		// H: largest accepted distance ahead / behind of the clock
		w, err := newStdWorld("c20m")
		if err != nil {
			rep.fail("harness/setup", err.Error())
			return rep
		}
		w.setNow(1000)
		for k := 420; k <= 445; k++ {
			if ok, _ := c20Accepts(w, uint32(1000+k)); ok {
				m.H = k
			}
			if ok, _ := c20Accepts(w, uint32(1000-k)); ok {
				m.Hneg = k
			}
		}
		// W: number of slots of the window
		w.setNow(3700)
		for i := 4020; i <= 4045; i++ {
			ok, p := c20Accepts(w, uint32(i))
			if p != "" {
				rep.fail("panic/window-edge", firstLine(p))
				w.Abandon()
				return rep
			}
			if ok {
				m.W = i + 1
			}
		}
		w.Close()
		w.Cleanup()
		// T: the rotation loop rotates iff now-offset > T. Coarse scan, then every value around the edge.
		rotates := func(d int) (bool, bool) {
			ow, err := newOpsWorld("c20t")
			if err != nil {
				rep.fail("harness/setup", err.Error())
				return false, false
			}
			defer ow.finish(&bfsResult{})
			ow.apply(fmt.Sprintf("now:%d", d))
			if r := ow.apply("tick"); r.Sig != "" {
				rep.fail("harness/tick", r.Obs)
				return false, false
			}
			return ow.M.Offset != 0, true
		}
		first := -1
		for d := 0; d <= 2*mWindow && first < 0; d += 64 {
			r, ok := rotates(d)
			if !ok {
				return rep
			}
			if r {
				first = d
			}
		}
		if first < 0 {
			m.T = 1 << 30 // never rotates within two windows
		} else {
			lo := first - 64
			if lo < 0 {
				lo = 0
			}
			for d := lo; d <= first+20; d++ {
				r, ok := rotates(d)
				if !ok {
					return rep
				}
				if r && m.T < 0 {
					m.T = d - 1
				}
				if !r && m.T >= 0 {
					rep.fail("rotation-trigger-not-monotone", d)
				}
			}
		}
		m.S = mWindow
		rep.Extra = map[string]int{"H": m.H, "Hneg": m.Hneg, "W": m.W, "T": m.T, "S": m.S}
		// start-up: how many rotations has a server performed by the time it has started with the clock d slots
		// past the window offset and all its loops are parked (nothing fired)? Coarse scan, then every value
		// around each change. Reported as the change points of that step function.
		startRot := func(d int) (int, bool) {
			ow, err := newOpsWorld("c20s")
			if err != nil {
				rep.fail("harness/setup", err.Error())
				return 0, false
			}
			defer ow.finish(&bfsResult{})
			ow.apply(fmt.Sprintf("now:%d", d))
			if err := ow.Restart(); err != nil {
				rep.fail("start-up-fails", map[string]interface{}{"now_minus_offset": d, "err": err.Error()})
				ow.Poisoned = true
				return 0, false
			}
			return int(ow.S.VerifSnapshot().ReportsOffset) / mWeek, true
		}
		prevD, prevR := 0, -1
		for d := 0; d <= 2*mWindow; d += 64 {
			r, ok := startRot(d)
			if !ok {
				return rep
			}
			if prevR < 0 {
				rep.Extra["SR:0"] = r
			} else if r != prevR {
				last := prevR
				for x := prevD + 1; x <= d; x++ {
					rx, ok := startRot(x)
					if !ok {
						return rep
					}
					if rx != last {
						rep.Extra[fmt.Sprintf("SR:%d", x)] = rx
						last = rx
					}
				}
			}
			prevD, prevR = d, r
		}
		rep.Evals++
	case "trace":
		// Arg: d0, step, nEvents, T (measured)
		d0, step, n, T := j.Arg[0], j.Arg[1], j.Arg[2], j.Arg[3]
		ow, err := newOpsWorld("c20trace")
		if err != nil {
			rep.fail("harness/setup", err.Error())
			return rep
		}
		defer ow.finish(&bfsResult{})
		now, off := d0, 0
		for i := 0; i < n; i++ {
			now += step
			ow.apply(fmt.Sprintf("now:%d", now))
			before := ow.M.Offset
			if r := ow.apply("tick"); r.Sig != "" {
				rep.fail("harness/tick", r.Obs)
				return rep
			}
			_ = before
			if now-off > T {
				off += mWeek
			}
			rep.Evals++
			if int(ow.S.VerifSnapshot().ReportsOffset) != off {
				rep.fail("cadence-model-disagrees-with-implementation", map[string]interface{}{"event": i, "now": now, "model_offset": off, "real_offset": ow.S.VerifSnapshot().ReportsOffset})
				return rep
			}
		}
		rep.Extra = map[string]int{"traces": 1}
	}
	return rep
}

func init() {
	pool.Register("c20", func(data json.RawMessage) (interface{}, error) {
		var j c20Job
		if err := json.Unmarshal(data, &j); err != nil {
			return nil, err
		}
		return c20Run(j), nil
	})
	checks["C20"] = func(tier string) int {
		run := newRun("C20", tier, "exploration")
		// ---- (a), (b): production binary ----
		out, err := vprod("consts")
		if err != nil {
			fmt.Println("HARNESS ERROR: vprod consts:", err)
			return 3
		}
		var pc prodConsts
		if err := json.Unmarshal(out, &pc); err != nil {
			fmt.Println("HARNESS ERROR: vprod consts:", err)
			return 3
		}
		if pc.GenesisTime != 1700352000 || pc.GenesisTime != pc.GenesisExpected {
			run.Violation("production-genesis-wrong", map[string]interface{}{"genesis": pc.GenesisTime, "expected": 1700352000, "2023-11-19T00:00:00Z": pc.GenesisExpected})
		}
		if pc.Server.TestMode || pc.Client.TestMode {
			run.Violation("production-build-in-test-mode", pc)
		}
		mode := "boundaries"
		if tier == "thorough" {
			mode = "all"
		}
		var mu sync.Mutex
		var wg sync.WaitGroup
		var tsEvals, slots int64
		for s := 0; s < 16; s++ {
			wg.Add(1)
			go func(s int) {
				defer wg.Done()
				o, err := vprod("timeslots", fmt.Sprint(s), "16", mode)
				var r struct {
					Evaluations int64
					Slots       int64
					Violations  []string
				}
				if err != nil || json.Unmarshal(o, &r) != nil {
					mu.Lock()
					run.Count("harness_errors", 1)
					mu.Unlock()
					return
				}
				mu.Lock()
				tsEvals += r.Evaluations
				slots += r.Slots
				for _, v := range r.Violations {
					cls := v
					for i := 0; i < len(v); i++ {
						if v[i] == '/' {
							cls = v[:i]
							break
						}
					}
					run.Violation("timeslot-conversion/"+cls, v)
				}
				mu.Unlock()
			}(s)
		}
		wg.Wait()
		if o, err := vprod("current"); err == nil {
			var r struct {
				Evaluations int64
				Violations  []string
			}
			json.Unmarshal(o, &r)
			tsEvals += r.Evaluations
			for _, v := range r.Violations {
				run.Violation("current-timeslot-does-not-follow-clock", v)
			}
		} else {
			run.Violation("current-timeslot-panics", err.Error())
		}
		// the same constants and clock-following in processes whose local time zone is not UTC (genesis is an absolute
		// instant; Go fixes the local zone before package initialisation, hence fresh processes)
		{
			zoneFile := func(offsetSeconds int32, name string) []byte {
				b := append([]byte("TZif"), 0)
				b = append(b, make([]byte, 15)...)
				for _, c := range []uint32{0, 0, 0, 0, 1, uint32(len(name) + 1)} {
					b = binary.BigEndian.AppendUint32(b, c)
				}
				b = binary.BigEndian.AppendUint32(b, uint32(offsetSeconds))
				b = append(b, 0, 0)
				b = append(b, name...)
				return append(b, 0)
			}
			dir := freshDir("tz")
			var zones []string
			for _, z := range []struct {
				name string
				off  int32
			}{{"UTCp9", 9 * 3600}, {"UTCm5", -5 * 3600}, {"UTCp0545", 5*3600 + 45*60}, {"UTCm0930", -(9*3600 + 30*60)}} {
				path := filepath.Join(dir, z.name)
				must(os.WriteFile(path, zoneFile(z.off, z.name), 0644))
				env := append(os.Environ(), "TZ="+path)
				bin := filepath.Join(filepath.Dir(os.Args[0]), "vprod")
				cmd := exec.Command(bin, "consts")
				cmd.Env = env
				o, err := cmd.Output()
				var zc prodConsts
				if err != nil || json.Unmarshal(o, &zc) != nil {
					fmt.Println("HARNESS ERROR: vprod consts under TZ", z.name, err)
					run.Count("harness_errors", 1)
					continue
				}
				if zc.LocalZoneOffset != int(z.off) {
					fmt.Println("HARNESS ERROR: the child did not run in zone", z.name, "but at offset", zc.LocalZoneOffset)
					run.Count("harness_errors", 1)
					continue
				}
				tsEvals++
				zones = append(zones, z.name)
				if zc.GenesisTime != 1700352000 {
					run.Violation("production-genesis-depends-on-host-time-zone", map[string]interface{}{"zone_offset_seconds": z.off, "genesis": zc.GenesisTime, "expected": 1700352000})
				}
				cmd = exec.Command(bin, "current")
				cmd.Env = env
				if o, err := cmd.Output(); err == nil {
					var r struct {
						Evaluations int64
						Violations  []string
					}
					json.Unmarshal(o, &r)
					tsEvals += r.Evaluations
					for _, v := range r.Violations {
						run.Violation("current-timeslot-does-not-follow-clock/in-zone-"+z.name, v)
					}
				}
			}
			os.RemoveAll(dir)
			run.Coverage["host_time_zones_checked"] = zones
		}
		run.Coverage["timeslot_conversions_checked"] = tsEvals
		run.Coverage["timeslots_covered"] = slots
		run.Coverage["conversion_mode"] = mode
		// ---- (c), (d) on the test build ----
		p := pool.New(0)
		jobs := []interface{}{
			c20Job{Part: "low", Arg: []int{0, 1, 431, 432, 433, 900, 3500}},
			c20Job{Part: "high", Arg: []int{100, 432, 433, 1000}},
			c20Job{Part: "mid", Arg: []int{0, 100, 128, 129, 560, 3500}},
			c20Job{Part: "measure"}, // must stay last
		}
		results := p.Map("c20", jobs, nil)
		var meas c20Measure
		startRot := map[int]int{} // change points of "rotations done by the end of start-up" as a function of the lag at start-up
		var startRotDesc []string
		evals := 0
		for i, r := range results {
			var rep jobReport
			if r.Err != "" || r.Panic != "" || r.Timeout || json.Unmarshal(r.Data, &rep) != nil {
				fmt.Println("HARNESS ERROR: c20 job", i, r.Err, firstLine(r.Panic), r.Timeout)
				run.Count("harness_errors", 1)
				continue
			}
			evals += rep.Evals
			for _, v := range rep.Violations {
				if len(v.Sig) > 8 && v.Sig[:8] == "harness/" {
					fmt.Println("HARNESS ERROR:", v.Sig, v.Detail)
					run.Count("harness_errors", 1)
					continue
				}
				run.Violation(v.Sig, v.Detail)
			}
			for k, v := range rep.Reasons {
				run.Distinct("class", k)
				_ = v
			}
			if i == len(jobs)-1 {
				meas = c20Measure{rep.Extra["H"], rep.Extra["Hneg"], rep.Extra["W"], rep.Extra["T"], rep.Extra["S"]}
				for k, v := range rep.Extra {
					if strings.HasPrefix(k, "SR:") {
						x, _ := strconv.Atoi(k[3:])
						startRot[x] = v
						startRotDesc = append(startRotDesc, fmt.Sprintf("from %d: %d", x, v))
					}
				}
				sort.Slice(startRotDesc, func(a, b int) bool {
					var x, y int
					fmt.Sscanf(startRotDesc[a], "from %d", &x)
					fmt.Sscanf(startRotDesc[b], "from %d", &y)
					return x < y
				})
			}
		}
		run.Coverage["measured_from_implementation"] = map[string]int{"acceptance_half_width_ahead": meas.H, "acceptance_half_width_behind": meas.Hneg, "window_slots": meas.W, "rotation_trigger": meas.T}
		P := int(pc.Server.ReportMigrationFrequency / (300 * time.Second))
		if pc.Server.ReportMigrationFrequency%(300*time.Second) != 0 {
			P++
		}
		run.Coverage["production_rotation_period_slots"] = P
		if meas.H < 0 || meas.W < 0 || meas.T < 0 || meas.S < 0 {
			fmt.Println("HARNESS ERROR: could not measure cadence parameters", meas)
			run.Count("harness_errors", 1)
		} else {
			// explicit-state exploration of (d = now-offset, phase) under the production period
			type st struct{ d, ph int }
			seen := map[st]bool{}
			var frontier []st
			push := func(s st) {
				if !seen[s] {
					seen[s] = true
					frontier = append(frontier, s)
				}
			}
			tick := func(d int) int {
				if d > meas.T {
					return d - mWeek
				}
				return d
			}
			// initial states: what a start-up leaves behind (measured), for every lag at start-up up to two windows;
			// the loop's timer has just been armed
			startMax := 0
			for d0 := 0; d0 <= 2*mWindow; d0++ {
				rot := 0
				best := -1
				for x, r := range startRot {
					if x <= d0 && x > best {
						best, rot = x, r
					}
				}
				res := d0 - rot*mWeek
				if res > startMax {
					startMax = res
				}
				push(st{res, 0})
			}
			run.Coverage["cadence_start_up"] = map[string]interface{}{"rotations_done_by_start_up_change_points": startRotDesc, "largest_now_minus_offset_after_start_up": startMax}
			trans := 0
			worst := 0
			for len(frontier) > 0 {
				s := frontier[len(frontier)-1]
				frontier = frontier[:len(frontier)-1]
				if s.d > worst {
					worst = s.d
				}
				if s.d+meas.H >= meas.W {
					run.Violation("rotation-cadence-unsafe", map[string]interface{}{"now_minus_offset": s.d, "half_width": meas.H, "window": meas.W, "trigger": meas.T, "period_slots": P,
						"what": "an acceptable report (timeslot now+half_width) falls outside the storage window before the rotation loop can rotate"})
					break
				}
				// one slot passes; the loop's timer fires when the period has elapsed, or one slot late
				n := st{s.d + 1, s.ph + 1}
				trans++
				if n.ph >= P {
					push(st{tick(n.d), 0})
					trans++
					if n.ph == P {
						push(n) // timer one slot late
					}
				} else {
					push(n)
				}
			}
			run.Coverage["cadence_states"] = len(seen)
			run.Coverage["cadence_transitions"] = trans
			run.Coverage["cadence_worst_now_minus_offset"] = worst
			run.Coverage["cadence_inequality"] = fmt.Sprintf("worst %d + half-width %d < window %d", worst, meas.H, meas.W)
			if meas.T+P+meas.H >= meas.W {
				run.Violation("production-inequality-violated", map[string]interface{}{"trigger": meas.T, "period_slots": P, "half_width": meas.H, "window": meas.W})
			}
			// replay model traces on the real server
			var tj []interface{}
			n := 40
			if tier == "thorough" {
				n = 400
			}
			for _, d0 := range []int{0, 1000, meas.T - 13, meas.T - 1, meas.T, meas.T + 1, 3999} {
				for _, step := range []int{P, P + 1, 1, 400} {
					tj = append(tj, c20Job{Part: "trace", Arg: []int{d0, step, n, meas.T}})
				}
			}
			traces := 0
			for i, r := range p.Map("c20", tj, nil) {
				var rep jobReport
				if r.Err != "" || r.Panic != "" || r.Timeout || json.Unmarshal(r.Data, &rep) != nil {
					fmt.Println("HARNESS ERROR: c20 trace", i, r.Err, firstLine(r.Panic), r.Timeout)
					run.Count("harness_errors", 1)
					continue
				}
				evals += rep.Evals
				traces++
				for _, v := range rep.Violations {
					if len(v.Sig) > 8 && v.Sig[:8] == "harness/" {
						fmt.Println("HARNESS ERROR:", v.Sig, v.Detail)
						run.Count("harness_errors", 1)
						continue
					}
					run.Violation(v.Sig, v.Detail)
				}
			}
			run.Coverage["traces_validated_against_impl"] = traces
		}
		run.Coverage["evaluations"] = tsEvals + int64(evals)
		run.Coverage["distinct_nontrivial"] = slots
		run.Coverage["rule"] = "(a) production-tag binary: UnixToTimeslot/TimeslotToUnix for every timeslot 0..14316557 at slot start, +1 s and +299 s (thorough: every second of the 2^32-second domain), 1000 seconds before genesis and far earlier times; round trip to slot start, exact slot, monotone, pre-genesis refused; distinct = timeslots covered; (b) production constants read from the production build, CurrentTimeslot against the shimmed clock at 53 instants; (c) acceptance of own-key reports at every distance -434..+434 from the clock at both uint32 extremes on a live server (high end via a crafted zero-device history record), compared with the int64-exact predicate, including the pairs whose sum now+d leaves the 32-bit range (timeslot = now+d mod 2^32: circularly near, mathematically 2^32-|d| away, must be turned away); the same sweep through stored reports in a window straddling 2^31; (d) all states (now-offset, timer phase) of the rotation cadence under the production period with trigger, start-up threshold, half-width and window measured from the running implementation; model traces replayed against the real rotation loop"
		run.Sample(map[string]interface{}{"genesis": pc.GenesisTime, "period": pc.Server.ReportMigrationFrequency.String(), "measured": meas})
		run.Assumption("the rotation loop's timer fires when its period has elapsed or at most one slot late; the window check at the high end of uint32 needs a crafted history file to reach")
		rc := run.Finish()
		if run.Counter("harness_errors") > 0 && rc == 0 {
			return 3
		}
		return rc
	}
}

var _ = binary.LittleEndian
