package main

import (
	"fmt"
	"time"

	"github.com/glowlabs-org/gca-backend/glow"
	"verifh/shim/vos"
)

func init() {
	checks["probe"] = func(tier string) int {
		t0 := time.Now()
		vos.ResetSteps()
		w, err := newServerWorld("probe")
		if err != nil {
			fmt.Println("start:", err)
			return 3
		}
		gca := key("gca")
		fmt.Println("register:", w.register(gca, w.Temp.Priv), "fs steps:", vos.Steps())
		dev := key("devA")
		ea := glow.EquipmentAuthorization{ShortID: 7, PublicKey: dev.Pub, Capacity: 1000}
		fmt.Println("authorize:", w.authorize(ea, gca.Priv))
		glow.SetCurrentTimeslot(10)
		w.S.VerifInjectDatagram(signedReport(7, 9, 500, dev.Priv))
		snap := w.S.VerifSnapshot()
		fmt.Printf("snapshot: offset=%d reports=%v recent=%d\n", snap.ReportsOffset, snap.Reports, len(snap.RecentReports))
		fmt.Println("restart:", w.Restart())
		snap = w.S.VerifSnapshot()
		fmt.Printf("snapshot: offset=%d reports=%v recent=%d\n", snap.ReportsOffset, snap.Reports, len(snap.RecentReports))
		fmt.Println("close:", w.Close(), time.Since(t0))
		w.Cleanup()
		return 0
	}
}
