package main

// E1: stateless exploration of thread interleavings on the real code under
// the cooperative scheduler, depth-first over choice prefixes, iteratively
// bounded by the number of preemptions.

import (
	"encoding/json"
	"fmt"
	"reflect"
	"strings"

	"verifh/pool"
	"verifh/vsched"
)

// scenario describes one closed concurrent system.
type scenario struct {
	Name string
	// Run performs one complete execution under choose on a fresh instance
	// and returns the record plus the oracle's verdicts.
	Run func(choose vsched.Chooser) *execOutcome
}

type execOutcome struct {
	Res        *vsched.Result
	Outcome    string // canonical observable outcome (for distinct-outcome counting)
	Violations []vio  // oracle verdicts for this execution
	Collided   bool   // whether >=2 threads contended for one resource (non-vacuity)
	HarnessErr string
}

type vio struct {
	Sig    string      `json:"sig"`
	Detail interface{} `json:"detail"`
}

type exploreStats struct {
	Executions int            `json:"executions"`
	Outcomes   map[string]int `json:"outcomes"`
	Collided   int            `json:"collided"`
	MaxSteps   int            `json:"max_steps"`
	CapHit     bool           `json:"cap_hit"`
	StepCapHit int            `json:"step_cap_hit"`
	Violations []foundVio     `json:"violations"`
	HarnessErr string         `json:"harness_err,omitempty"`
	Sample     []string       `json:"sample,omitempty"`
}

type foundVio struct {
	Sig      string      `json:"sig"`
	Detail   interface{} `json:"detail"`
	Schedule []int       `json:"schedule"`
	Trace    []string    `json:"trace"`
}

func (s *exploreStats) merge(o *exploreStats) {
	s.Executions += o.Executions
	s.Collided += o.Collided
	s.StepCapHit += o.StepCapHit
	if o.MaxSteps > s.MaxSteps {
		s.MaxSteps = o.MaxSteps
	}
	s.CapHit = s.CapHit || o.CapHit
	if s.Outcomes == nil {
		s.Outcomes = map[string]int{}
	}
	for k, v := range o.Outcomes {
		s.Outcomes[k] += v
	}
	s.Violations = append(s.Violations, o.Violations...)
	if s.HarnessErr == "" {
		s.HarnessErr = o.HarnessErr
	}
	if len(s.Sample) < 3 {
		s.Sample = append(s.Sample, o.Sample...)
	}
}

type explorer struct {
	sc      *scenario
	bound   int // max preemptions; <0 = unbounded
	maxExec int
	st      exploreStats
	// emit, when set, receives prefixes at recursion depth emitDepth instead of exploring them.
	emitDepth int
	emit      func(prefix []int)
}

func scheduleTrace(steps []vsched.Step, names func(int) string) []string {
	var out []string
	for _, s := range steps {
		out = append(out, fmt.Sprintf("%s@%s(%s)", names(s.Enabled[s.Chosen]), s.Info.Kind, s.Info.Res))
	}
	return out
}

func (e *explorer) runOne(prefix []int, expect []vsched.Step) *execOutcome {
	var mismatch string
	choose := func(step int, enabled []int, running int, runningEnabled bool) int {
		if step < len(prefix) {
			if step < len(expect) && !reflect.DeepEqual(expect[step].Enabled, enabled) && mismatch == "" {
				mismatch = fmt.Sprintf("replay diverged at step %d: enabled %v, recorded %v", step, enabled, expect[step].Enabled)
			}
			if prefix[step] >= len(enabled) {
				if mismatch == "" {
					mismatch = fmt.Sprintf("replay diverged at step %d: choice %d but enabled %v", step, prefix[step], enabled)
				}
				return 0
			}
			return prefix[step]
		}
		return 0
	}
	x := e.sc.Run(choose)
	if mismatch != "" && x.HarnessErr == "" {
		x.HarnessErr = mismatch
	}
	return x
}

func (e *explorer) explore(prefix []int, expect []vsched.Step, depth int) {
	if e.st.HarnessErr != "" {
		return
	}
	if e.maxExec > 0 && e.st.Executions >= e.maxExec {
		e.st.CapHit = true
		return
	}
	x := e.runOne(prefix, expect)
	e.st.Executions++
	if x.HarnessErr != "" {
		e.st.HarnessErr = x.HarnessErr
		return
	}
	steps := x.Res.Steps
	if len(steps) > e.st.MaxSteps {
		e.st.MaxSteps = len(steps)
	}
	if x.Res.StepCapHit {
		e.st.StepCapHit++
	}
	if e.st.Outcomes == nil {
		e.st.Outcomes = map[string]int{}
	}
	e.st.Outcomes[x.Outcome]++
	if x.Collided {
		e.st.Collided++
	}
	choices := make([]int, len(steps))
	for i, s := range steps {
		choices[i] = s.Chosen
	}
	if len(e.st.Sample) < 2 {
		e.st.Sample = append(e.st.Sample, strings.Join(x.Res.LockTrace, " "))
	}
	for _, v := range x.Violations {
		e.st.Violations = append(e.st.Violations, foundVio{Sig: v.Sig, Detail: v.Detail, Schedule: choices, Trace: x.Res.LockTrace})
	}
	pre := 0
	for i := 0; i < len(steps); i++ {
		if i >= len(prefix) {
			s := steps[i]
			for alt := 1; alt < len(s.Enabled); alt++ {
				cost := pre
				if s.RunningEnabled {
					cost++
				}
				if e.bound >= 0 && cost > e.bound {
					continue
				}
				np := append(append(make([]int, 0, i+1), choices[:i]...), alt)
				if e.emit != nil && depth+1 >= e.emitDepth {
					e.emit(np)
					continue
				}
				e.explore(np, steps, depth+1)
			}
		}
		if steps[i].RunningEnabled && steps[i].Chosen != 0 {
			pre++
		}
	}
}

// ---- sharding over worker processes ----

var scenarios = map[string]func(arg json.RawMessage) *scenario{}

type exploreJob struct {
	Scenario string          `json:"scenario"`
	Arg      json.RawMessage `json:"arg"`
	Prefix   []int           `json:"prefix"`
	Bound    int             `json:"bound"`
	MaxExec  int             `json:"max_exec"`
}

func init() {
	pool.Register("explore", func(data json.RawMessage) (interface{}, error) {
		var j exploreJob
		if err := json.Unmarshal(data, &j); err != nil {
			return nil, err
		}
		mk := scenarios[j.Scenario]
		if mk == nil {
			return nil, fmt.Errorf("unknown scenario %q", j.Scenario)
		}
		e := &explorer{sc: mk(j.Arg), bound: j.Bound, maxExec: j.MaxExec}
		e.explore(j.Prefix, nil, 0)
		return &e.st, nil
	})
}

// exploreSharded explores the whole tree of scenario name: the parent runs
// the top levels itself and hands subtrees to the worker pool.
func exploreSharded(name string, arg interface{}, bound, maxExecPerShard, emitDepth int, p *pool.Pool) (*exploreStats, []pool.Result) {
	raw, _ := json.Marshal(arg)
	mk := scenarios[name]
	var prefixes [][]int
	e := &explorer{sc: mk(raw), bound: bound, emitDepth: emitDepth}
	e.emit = func(pf []int) { prefixes = append(prefixes, pf) }
	e.explore(nil, nil, 0)
	total := e.st
	if total.HarnessErr != "" || len(prefixes) == 0 {
		return &total, nil
	}
	jobs := make([]interface{}, len(prefixes))
	for i, pf := range prefixes {
		jobs[i] = exploreJob{Scenario: name, Arg: raw, Prefix: pf, Bound: bound, MaxExec: maxExecPerShard}
	}
	results := p.Map("explore", jobs, nil)
	var bad []pool.Result
	for _, r := range results {
		if r.Err != "" || r.Panic != "" || r.Timeout {
			bad = append(bad, r)
			continue
		}
		var st exploreStats
		if err := json.Unmarshal(r.Data, &st); err != nil {
			bad = append(bad, pool.Result{ID: r.ID, Err: err.Error()})
			continue
		}
		total.merge(&st)
	}
	return &total, bad
}
