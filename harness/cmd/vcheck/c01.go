package main

// C01 - only authentic, authorized, in-window reports change server state.
// Exhaustive enumeration of a structured datagram alphabet (field boundary
// product, every single-bit flip, every length, field swaps, re-signings under
// every other key) over (offset, now-offset) configurations, injected into a
// live real server and compared with the reference model after every datagram.

import (
	"bytes"
	"encoding/binary"
	"encoding/json"
	"fmt"
	"math/big"
	"net"
	"os"
	"path/filepath"
	"sort"
	"time"

	"github.com/glowlabs-org/gca-backend/glow"

	"verifh/ev"
	"verifh/pool"
)

type c01Job struct {
	Rotations int  `json:"rotations"` // offset = 2016*rotations
	D         int  `json:"d"`         // now - offset
	Full      bool `json:"full"`      // full alphabet or the reduced sweep alphabet
	Transport bool `json:"transport"` // conformance subset through the real UDP socket
}

// c01Transport sends a subset of the alphabet through the server's real UDP
// socket. Handlers run asynchronously, so datagrams target distinct slots
// (order-free outcome), a final marker report is awaited (bounded; a time-out
// makes the sub-check inconclusive, never a violation), and the state is read
// after Close(), which waits for every handler.
func c01Transport() (rep *jobReport) {
	rep = &jobReport{Reasons: map[string]int{}}
	w, err := newStdWorld("c01udp")
	if err != nil {
		rep.fail("harness/setup", err.Error())
		return
	}
	w.setNow(1000)
	_, _, udp := w.S.Ports()
	addr := fmt.Sprintf("127.0.0.1:%d", udp)
	conn, err := net.Dial("udp", addr)
	if err != nil {
		rep.fail("harness/dial", err.Error())
		return
	}
	defer conn.Close()
	type tc struct {
		desc string
		b    []byte
	}
	var cases []tc
	slot := uint32(900)
	next := func() uint32 { slot++; return slot }
	valid := func() []byte { return signedReport(1, next(), 500, w.A.Priv) }
	cases = append(cases, tc{"valid 80 bytes", valid()})
	cases = append(cases, tc{"valid leading 80 bytes + 1", append(valid(), 0)})
	cases = append(cases, tc{"valid leading 80 bytes + 120", append(valid(), bytes.Repeat([]byte{7}, 120)...)})
	for _, l := range []int{0, 1, 16, 40, 79} {
		cases = append(cases, tc{fmt.Sprintf("valid report cut to %d bytes", l), valid()[:l]})
	}
	for _, bit := range []int{0, 31, 32, 63, 64, 127, 128, 383, 384, 639} {
		b := valid()
		b[bit/8] ^= 1 << (bit % 8)
		cases = append(cases, tc{fmt.Sprintf("bit %d flipped", bit), b})
	}
	cases = append(cases, tc{"signed by device B", signedReport(1, next(), 500, w.B.Priv)})
	cases = append(cases, tc{"signed by the GCA", signedReport(1, next(), 500, w.GCA.Priv)})
	cases = append(cases, tc{"banned device", signedReport(3, next(), 500, w.X.Priv)})
	cases = append(cases, tc{"unknown device", signedReport(9, next(), 500, w.A.Priv)})
	cases = append(cases, tc{"sentinel 0", signedReport(1, next(), 0, w.A.Priv)})
	cases = append(cases, tc{"sentinel 1", signedReport(1, next(), 1, w.A.Priv)})
	cases = append(cases, tc{"now+432", signedReport(1, 1432, 500, w.A.Priv)})
	cases = append(cases, tc{"now+433", signedReport(1, 1433, 500, w.A.Priv)})
	cases = append(cases, tc{"now-432", signedReport(1, 568, 500, w.A.Priv)})
	cases = append(cases, tc{"now-433", signedReport(1, 567, 500, w.A.Priv)})
	for i := 0; i < 6; i++ {
		cases = append(cases, tc{"valid 80 bytes", valid()})
	}
	for _, c := range cases {
		if len(c.b) == 0 {
			conn.Write([]byte{}) // an empty datagram is a datagram
		} else {
			conn.Write(c.b)
		}
		w.M.datagram(c.b, w.Now)
		rep.Evals++
		time.Sleep(200 * time.Microsecond)
	}
	marker := signedReport(2, 1000, 5, w.B.Priv)
	conn.Write(marker)
	w.M.datagram(marker, w.Now)
	deadline := time.Now().Add(5 * time.Second)
	seen := false
	for !seen && time.Now().Before(deadline) {
		for _, sl := range w.S.VerifSnapshot().Reports[2] {
			if sl.Index == 1000 {
				seen = true
			}
		}
		if !seen {
			time.Sleep(time.Millisecond)
		}
	}
	if p := safely(func() { w.Close() }); p != "" {
		rep.fail("close-panic", firstLine(p))
		return
	}
	defer w.Cleanup()
	if !seen {
		rep.Reasons["inconclusive: marker datagram not seen within 5 s"]++
		return
	}
	// after Close every handler has finished
	snap := w.S.VerifSnapshot()
	got, kerr := snapValueKey(snap)
	if kerr != nil {
		rep.fail("state/inconsistent", kerr.Error())
		return
	}
	if want := w.M.valueKey(); got != want {
		// UDP may lose a datagram even on the loopback. Effects the model does NOT predict are violations.
		// A predicted effect that is missing is a violation only if it is systematic: every plain 80-byte
		// control report arrived but a whole class (e.g. the over-long datagrams) did not.
		extra := false
		have := map[uint32]bool{}
		for _, sl := range snap.Reports[1] {
			have[sl.Index] = true
			if w.M.Slots[1][sl.Index] == nil || w.M.Slots[1][sl.Index].value() != sl.Report.PowerOutput {
				extra = true
				rep.fail("transport/unexpected-effect", map[string]interface{}{"slot": sl.Index, "power": sl.Report.PowerOutput, "diff": firstDiff(got, want)})
			}
		}
		if extra {
			return
		}
		controlsOK := true
		missing := map[string]int{}
		total := map[string]int{}
		for _, c := range cases {
			if ok, _ := w.M.acceptable(c.b, w.Now); !ok && !(len(c.b) >= 80) {
				continue
			}
			if len(c.b) < 80 {
				continue
			}
			ts := binary.LittleEndian.Uint32(c.b[4:8])
			if w.M.Slots[1][ts] == nil {
				continue // not an accepted report
			}
			total[c.desc]++
			if !have[ts] {
				missing[c.desc]++
				if c.desc == "valid 80 bytes" {
					controlsOK = false
				}
			}
		}
		for cls, n := range missing {
			if controlsOK && n == total[cls] {
				rep.fail("transport/class-dropped/"+cls, map[string]interface{}{"missing": n, "of": total[cls], "controls_arrived": total["valid 80 bytes"]})
			}
		}
		if len(rep.Violations) == 0 {
			rep.Reasons["inconclusive: a datagram was lost on the loopback"]++
		}
		return
	}
	rep.Accepted = len(snap.Reports[1])
	rep.Reasons["transport subset conforms"]++
	rep.Samples = append(rep.Samples, fmt.Sprintf("%d datagrams through the real UDP socket, %d accepted", len(cases)+1, rep.Accepted+1))
	return
}

type jobReport struct {
	Evals        int            `json:"evals"`
	Accepted     int            `json:"accepted"`
	Reasons      map[string]int `json:"reasons"`
	Violations   []vio          `json:"violations"`
	Samples      []string       `json:"samples"`
	PublicChecks int            `json:"public_checks"`
	Extra        map[string]int `json:"extra,omitempty"`
	Inconclusive []string       `json:"inconclusive,omitempty"` // parts of the job that could not be decided (not a violation, not exhaustive)
}

func (r *jobReport) fail(sig string, detail interface{}) {
	for _, v := range r.Violations {
		if v.Sig == sig {
			return
		}
	}
	r.Violations = append(r.Violations, vio{sig, detail})
}

type dgCase struct {
	Desc  string
	Bytes []byte
	Class string // coarse input class used in violation signatures
}

// edgeClass names a timeslot by its relation to the acceptance range and the
// storage window, precisely at the edges and coarsely inside.
func edgeClass(t, now, off int64) string {
	a := "inside-range"
	if d := t - now; d <= -431 || d >= 431 {
		a = fmt.Sprintf("now%+d", d)
	}
	b := "inside-window"
	if d := t - off; d <= 1 || d >= 4030 {
		b = fmt.Sprintf("off%+d", d)
	} else if d == 2015 || d == 2016 {
		b = "week-boundary"
	}
	return a + "," + b
}

// stdWorld is the standard population used by the datagram checks: devices A
// (id 1, capacity 1000), B (id 2, capacity 7), X (id 3, banned by a
// conflicting authorization); id 9 unknown.
type stdWorld struct {
	*srvWorld
	M       *srvModel
	GCA     keyPair
	A, B, X keyPair
	Now     uint32
}

func authFor(id uint32, k keyPair, capacity uint64) glow.EquipmentAuthorization {
	return glow.EquipmentAuthorization{ShortID: id, PublicKey: k.Pub, Latitude: 38.123, Longitude: -85.5, Capacity: capacity, Debt: 11, Expiration: 100000000, Initialization: 3, ProtocolFee: 77}
}

func (w *stdWorld) signAuth(ea glow.EquipmentAuthorization, priv glow.PrivateKey) glow.EquipmentAuthorization {
	ea.Signature = glow.Sign(ea.SigningBytes(), priv)
	return ea
}

// doAuthorize submits through the JSON endpoint and mirrors into the model.
func (w *stdWorld) doAuthorize(ea glow.EquipmentAuthorization) (int, authOutcome) {
	b, _ := json.Marshal(ea)
	code, _ := w.httpDo("POST", "/api/v1/authorize-equipment", b)
	return code, w.M.authorize(ea)
}

func (w *stdWorld) setNow(n uint32) {
	w.Now = n
	glow.SetCurrentTimeslot(n)
}

func newStdWorld(name string) (*stdWorld, error) {
	resetGlobals()
	sw, err := newServerWorld(name)
	if err != nil {
		return nil, err
	}
	w := &stdWorld{srvWorld: sw, M: newSrvModel(sw.Temp.Pub), GCA: key("gca"), A: key("devA"), B: key("devB"), X: key("devX")}
	w.setNow(0)
	gr := glow.Sign(refRegistrationSigningBytes(w.GCA.Pub), sw.Temp.Priv)
	if code := sw.register(w.GCA, sw.Temp.Priv); code != 200 || !w.M.register(w.GCA.Pub, gr) {
		return nil, fmt.Errorf("registration failed: %d", code)
	}
	for _, a := range []glow.EquipmentAuthorization{authFor(1, w.A, 1000), authFor(2, w.B, 7), authFor(3, w.X, 1000)} {
		if code, out := w.doAuthorize(w.signAuth(a, w.GCA.Priv)); code != 200 || out != authAdded {
			return nil, fmt.Errorf("authorization of %d failed: %d", a.ShortID, code)
		}
	}
	// conflicting authorization for id 3 with a fresh key: bans id 3
	xa := authFor(3, key("devX2"), 1000)
	if code, out := w.doAuthorize(w.signAuth(xa, w.GCA.Priv)); code == 200 || out != authConflictBan {
		return nil, fmt.Errorf("conflict on 3 did not ban: %d", code)
	}
	return w, nil
}

func (w *stdWorld) rotate() {
	w.S.VerifRotate()
	w.M.rotate()
}

// compareState compares the real snapshot with the model (value level).
func (w *stdWorld) compareState() (string, string) {
	snap := w.S.VerifSnapshot()
	got, err := snapValueKey(snap)
	if err != nil {
		return "state/inconsistent", err.Error()
	}
	want := w.M.valueKey()
	if got != want {
		return "state/differs", firstDiff(got, want)
	}
	return "", ""
}

func firstDiff(got, want string) string {
	i := 0
	for i < len(got) && i < len(want) && got[i] == want[i] {
		i++
	}
	lo := i - 60
	if lo < 0 {
		lo = 0
	}
	g, w := got[lo:], want[lo:]
	if len(g) > 160 {
		g = g[:160]
	}
	if len(w) > 160 {
		w = w[:160]
	}
	return fmt.Sprintf("server ...%s  |  model ...%s", g, w)
}

func powerName(p uint64) string {
	switch p {
	case 1<<63 - 1:
		return "2^63-1"
	case 1 << 63:
		return "2^63"
	case 1<<64 - 1:
		return "2^64-1"
	}
	return fmt.Sprint(p)
}

func c01Alphabet(w *stdWorld, full bool) []dgCase {
	now, off := int64(w.Now), int64(w.M.Offset)
	tsSet := map[int64]bool{}
	for _, t := range []int64{now - 433, now - 432, now - 431, now, now + 431, now + 432, now + 433, off - 1, off, off + 1, off + 2015, off + 2016, off + 4031, off + 4032, off + 4033} {
		if t >= 0 && t < 1<<32 {
			tsSet[t] = true
		}
	}
	var tss []int64
	for t := range tsSet {
		tss = append(tss, t)
	}
	sort.Slice(tss, func(i, j int) bool { return tss[i] < tss[j] })
	type dev struct {
		name  string
		id    uint32
		limit uint64
	}
	devs := []dev{{"A", 1, 1350}, {"B", 2, 9}, {"bannedX", 3, 1350}, {"unknown", 9, 1350}}
	type signer struct {
		name string
		priv glow.PrivateKey
	}
	signers := []signer{{"A", w.A.Priv}, {"B", w.B.Priv}, {"X", w.X.Priv}, {"GCA", w.GCA.Priv}, {"server", w.Srv.Priv}, {"temp", w.Temp.Priv}}
	var out []dgCase
	if !full {
		// reduced alphabet for the clock sweep: own-key reports at the edges
		for _, t := range tss {
			for _, p := range []uint64{2, 1} {
				out = append(out, dgCase{fmt.Sprintf("dev=A signer=A ts=%+d(off%+d) power=%d", t-now, t-off, p), signedReport(1, uint32(t), p, w.A.Priv), fmt.Sprintf("own-key/%s/power=%d", edgeClass(t, now, off), p)})
			}
		}
		return out
	}
	for _, d := range devs {
		powers := []uint64{0, 1, 2, 3, d.limit, d.limit + 1, 1<<63 - 1, 1 << 63, 1<<64 - 1}
		// Foreign signers first, the rightful key last: a slot must still be
		// untouched when a report that has to be rejected arrives for it.
		ordered := append([]signer(nil), signers...)
		sort.SliceStable(ordered, func(i, j int) bool { return ordered[i].name != d.name && ordered[j].name == d.name })
		for _, s := range ordered {
			for _, t := range tss {
				for _, p := range powers {
					cls := "foreign-key"
					if s.name == d.name {
						cls = "own-key"
					}
					out = append(out, dgCase{fmt.Sprintf("dev=%s signer=%s ts=now%+d(off%+d) power=%s", d.name, s.name, t-now, t-off, powerName(p)), signedReport(d.id, uint32(t), p, s.priv),
						fmt.Sprintf("%s/dev=%s/%s/power=%s", cls, d.name, edgeClass(t, now, off), powerName(p))})
				}
			}
		}
	}
	// devices with undecodable keys: a report naming one, signed by every key in the system, three times in a row
	// (a verification that fails on the key itself must fail the same way every time), then a genuine report of A
	// and the same again
	for round := 0; round < 2; round++ {
		for _, zid := range []uint32{5, 6} {
			for _, sg := range signers {
				t := now
				if t < off {
					t = off
				}
				dg := signedReport(zid, uint32(t), 7, sg.priv)
				for k := 0; k < 3; k++ {
					out = append(out, dgCase{fmt.Sprintf("dev=undecodable-key-%d signer=%s repeat=%d", zid, sg.name, k), dg, fmt.Sprintf("foreign-key/dev=undecodable-key/repeat=%d", k)})
				}
			}
		}
		if now >= off && now+int64(round) < off+mWindow {
			out = append(out, dgCase{fmt.Sprintf("dev=A signer=A between the undecodable-key rounds %d", round), signedReport(1, uint32(now)+uint32(round)+200, 9, w.A.Priv), "own-key/between-undecodable"})
		}
	}
	// One fresh valid in-window report for B: all single-bit flips, lengths, extensions, swaps.
	freshTs := now
	if freshTs < off {
		freshTs = off
	}
	if freshTs >= off+mWindow {
		freshTs = -1
	}
	if freshTs >= 0 {
		// pick a slot not used by the product above
		for tsSet[freshTs] && freshTs+1 <= now+mHalfWidth && freshTs+1 < off+mWindow {
			freshTs++
		}
		valid := signedReport(2, uint32(freshTs), 5, w.B.Priv)
		for bit := 0; bit < 640; bit++ {
			m := append([]byte(nil), valid...)
			m[bit/8] ^= 1 << (bit % 8)
			out = append(out, dgCase{fmt.Sprintf("bitflip %d of valid B report ts=now%+d", bit, freshTs-now), m, ""})
		}
		for l := 0; l <= 79; l++ {
			out = append(out, dgCase{fmt.Sprintf("valid B report cut to %d bytes", l), valid[:l], ""})
		}
		// algebraic variants of the genuine signature (r, s): the high-s twin (r, N-s)
		// verifies under textbook ECDSA and needs no key to compute; also s+N is
		// impossible in 32 bytes, so r/s zeroed and r,s exchanged stand in for the rest.
		for _, v := range sigVariants(valid) {
			out = append(out, dgCase{"valid B report with signature variant " + v.name, v.b, "signature-variant/" + v.name})
		}
		// field swaps
		sw := append([]byte(nil), valid...)
		copy(sw[0:4], valid[4:8])
		copy(sw[4:8], valid[0:4])
		out = append(out, dgCase{"id and timeslot fields swapped", sw, ""})
		sw2 := append([]byte(nil), valid...)
		copy(sw2[16:48], valid[48:80])
		copy(sw2[48:80], valid[16:48])
		out = append(out, dgCase{"signature halves swapped", sw2, ""})
		// signature of another valid report of the same device
		other := signedReport(2, uint32(freshTs), 6, w.B.Priv)
		sw3 := append([]byte(nil), valid...)
		copy(sw3[16:], other[16:])
		out = append(out, dgCase{"signature taken from a different report of the same device", sw3, ""})
		// signing bytes without the type prefix / with another prefix
		for _, prefix := range []string{"", "EquipmentAuthorization", "equipmentreport"} {
			sb := append([]byte(prefix), refReportSigningBytes(2, uint32(freshTs), 5)[15:]...)
			sg := glow.Sign(sb, w.B.Priv)
			out = append(out, dgCase{fmt.Sprintf("signed over prefix %q", prefix), refReportBytes(2, uint32(freshTs), 5, sg), ""})
		}
		// extension with an invalid prefix, then with the valid prefix (must be accepted), then lengths 80, 81
		inval := append(append([]byte(nil), sw...), bytes.Repeat([]byte{0xAB}, 120)...)
		out = append(out, dgCase{"200 bytes, invalid leading 80", inval, ""})
		out = append(out, dgCase{"200 bytes, valid leading 80", append(append([]byte(nil), valid...), bytes.Repeat([]byte{0xCD}, 120)...), ""})
		out = append(out, dgCase{"81 bytes, valid leading 80 (replay)", append(append([]byte(nil), valid...), 0), ""})
		out = append(out, dgCase{"80 bytes exact (replay)", valid, ""})
		// every single-bit flip again now that the genuine report is stored: its signature bytes are on record,
		// and a datagram that reuses them with other content must still be rejected
		for bit := 0; bit < 640; bit++ {
			m := append([]byte(nil), valid...)
			m[bit/8] ^= 1 << (bit % 8)
			out = append(out, dgCase{fmt.Sprintf("bitflip %d of the stored B report", bit), m, "bitflip-after-store"})
		}
		// the same variants once the genuine report is stored: a twin would now count as a second report
		for _, v := range sigVariants(valid) {
			out = append(out, dgCase{"stored B report re-sent with signature variant " + v.name, v.b, "signature-variant-after-store/" + v.name})
		}
	}
	return out
}

func c01RunJob(j c01Job) (rep *jobReport) {
	if j.Transport {
		return c01Transport()
	}
	rep = &jobReport{Reasons: map[string]int{}}
	w, err := newStdWorld("c01")
	if err != nil {
		rep.fail("harness/setup", err.Error())
		return
	}
	poisoned := false
	defer func() {
		if poisoned {
			w.Abandon()
		} else {
			if p := safely(func() { w.Close() }); p != "" {
				rep.fail("close-panic", p)
			}
			w.Cleanup()
		}
	}()
	// two devices whose public keys are not points of the curve (all zero; all ones): the server authorizes them
	// like any other, nobody can ever sign for them
	var ones keyPair
	for i := range ones.Pub {
		ones.Pub[i] = 0xFF
	}
	for id, k := range map[uint32]keyPair{5: {}, 6: ones} {
		if code, out := w.doAuthorize(w.signAuth(authFor(id, k, 1000), w.GCA.Priv)); code != 200 || out != authAdded {
			rep.fail("harness/setup", fmt.Sprintf("authorization of the device with an undecodable key (id %d) answered %d", id, code))
			return
		}
	}
	for i := 0; i < j.Rotations; i++ {
		w.rotate()
	}
	w.setNow(w.M.Offset + uint32(j.D))
	if sig, what := w.compareState(); sig != "" {
		rep.fail("setup-"+sig, what)
		return
	}
	cfg := fmt.Sprintf("offset=%d now=offset+%d", w.M.Offset, j.D)
	alphabet := c01Alphabet(w, j.Full)
	reportsFile := filepath.Join(w.Dir, "equipment-reports.dat")
	before := snapFullKey(w.S.VerifSnapshot())
	sizeBefore := w.fileSize("equipment-reports.dat")
	for i, c := range alphabet {
		if p := safely(func() { w.S.VerifInjectDatagram(c.Bytes) }); p != "" {
			poisoned = true
			_, why := w.M.acceptable(c.Bytes, w.Now)
			if why == "" {
				why = "acceptable"
			}
			rep.fail("panic/"+why, map[string]interface{}{"config": cfg, "datagram": c.Desc, "bytes": fmt.Sprintf("%x", c.Bytes), "panic": p})
			return
		}
		rep.Evals++
		changed, why := w.M.datagram(c.Bytes, w.Now)
		snap := w.S.VerifSnapshot()
		after := snapFullKey(snap)
		size := w.fileSize("equipment-reports.dat")
		if !changed {
			if why == "" {
				why = "no-op (replay or banned slot)"
			}
			rep.Reasons[why]++
			if after != before || size != sizeBefore {
				rep.fail("rejected-datagram-changed-state/"+why+"/"+c.class(), map[string]interface{}{"config": cfg, "datagram": c.Desc, "bytes": fmt.Sprintf("%x", c.Bytes), "model_reason": why, "diff": firstDiff(after, before), "file_growth": size - sizeBefore})
				return
			}
			continue
		}
		rep.Accepted++
		rep.Reasons["accepted"]++
		if len(rep.Samples) < 3 {
			rep.Samples = append(rep.Samples, cfg+": "+c.Desc)
		}
		got, err := snapValueKey(snap)
		if err != nil {
			rep.fail("state/inconsistent", err.Error())
			return
		}
		if want := w.M.valueKey(); got != want {
			rep.fail("accepted-datagram-state-differs/"+c.class(), map[string]interface{}{"config": cfg, "datagram": c.Desc, "bytes": fmt.Sprintf("%x", c.Bytes), "diff": firstDiff(got, want)})
			return
		}
		if size != sizeBefore+80 {
			rep.fail("accepted-datagram-not-persisted", map[string]interface{}{"config": cfg, "datagram": c.Desc, "file_growth": size - sizeBefore})
			return
		}
		fb, _ := os.ReadFile(reportsFile)
		if !bytes.Equal(fb[len(fb)-80:], c.Bytes[:80]) {
			rep.fail("persisted-bytes-differ", map[string]interface{}{"config": cfg, "datagram": c.Desc})
			return
		}
		before, sizeBefore = after, size
		if i%400 == 0 {
			rep.PublicChecks++
			if sig, what := w.checkPublic(w.M); sig != "" {
				rep.fail(sig, map[string]interface{}{"config": cfg, "after": c.Desc, "what": what})
				return
			}
		}
	}
	rep.PublicChecks++
	if sig, what := w.checkPublic(w.M); sig != "" {
		rep.fail(sig, map[string]interface{}{"config": cfg, "what": what})
		return
	}
	if mu, smu := w.S.VerifTryLocks(); !mu || !smu {
		rep.fail("lock-held", cfg)
	}
	return
}

func (c dgCase) class() string {
	if c.Class != "" {
		return c.Class
	}
	return classify(c.Desc)
}

// classify reduces a datagram description to its class for signatures.
func classify(desc string) string {
	for _, k := range []string{"bitflip", "cut to", "swapped", "prefix", "200 bytes", "81 bytes", "80 bytes"} {
		if bytes.Contains([]byte(desc), []byte(k)) {
			return k
		}
	}
	// product case: keep device, signer, relative offsets and power
	return desc
}

func init() {
	pool.Register("c01", func(data json.RawMessage) (interface{}, error) {
		var j c01Job
		if err := json.Unmarshal(data, &j); err != nil {
			return nil, err
		}
		return c01RunJob(j), nil
	})
	checks["C01"] = func(tier string) int {
		run := newRun("C01", tier, "exploration")
		var jobs []interface{}
		for _, rot := range []int{0, 1} {
			for _, d := range []int{0, 431, 432, 433, 2016, 3599, 3600, 3601, 3999} {
				jobs = append(jobs, c01Job{Rotations: rot, D: d, Full: true})
			}
		}
		lo, hi := 3596, 3604
		if tier == "thorough" {
			lo, hi = 3590, 4040
		}
		for d := lo; d <= hi; d++ {
			jobs = append(jobs, c01Job{Rotations: 1, D: d})
		}
		jobs = append(jobs, c01Job{Transport: true})
		return runJobCheck(run, "c01", jobs, "datagrams injected into a live real server; distinct = (model verdict class) x configuration; non-trivial = datagrams that the model accepts or that fail exactly one clause of the acceptance predicate")
	}
}

// runJobCheck maps jobs over the pool, merges jobReports and writes evidence.
func runJobCheck(run *ev.Run, kind string, jobs []interface{}, rule string) int {
	p := pool.New(0)
	results := p.Map(kind, jobs, nil)
	evals, accepted, public := 0, 0, 0
	reasons := map[string]int{}
	for i, r := range results {
		jb, _ := json.Marshal(jobs[i])
		if r.Timeout {
			// A wedge counts only with a goroutine dump showing a thread blocked in the shimmed Lock.
			if bytes.Contains([]byte(r.Dump), []byte("vsync.(*Mutex).Lock")) {
				run.Violation("wedged/"+kind, map[string]interface{}{"job": json.RawMessage(jb), "dump": tailStr(r.Dump, 6000)})
			} else {
				run.NotExhaustive(fmt.Sprintf("job %s timed out without a lock-wait witness (inconclusive)", jb))
			}
			continue
		}
		if r.Panic != "" {
			run.Violation("panic/"+kind+"/"+firstLine(r.Panic), map[string]interface{}{"job": json.RawMessage(jb), "panic": tailStr(r.Panic, 6000), "replay": mkReplay(kind, jobs[i])})
			continue
		}
		if r.Err == "worker died" {
			if sig, ok := processDeath(r.Dump); ok {
				run.Violation(sig, map[string]interface{}{"job": json.RawMessage(jb), "stderr": headStr(r.Dump, 6000), "replay": mkReplay(kind, jobs[i])})
				continue
			}
		}
		if r.Err != "" {
			fmt.Printf("HARNESS ERROR job %s: %s\n%s\n", jb, r.Err, tailStr(r.Dump, 3000))
			run.NotExhaustive("harness error: " + r.Err)
			run.Count("harness_errors", 1)
			continue
		}
		var rep jobReport
		if err := json.Unmarshal(r.Data, &rep); err != nil {
			fmt.Println("HARNESS ERROR: bad report", err)
			run.Count("harness_errors", 1)
			continue
		}
		evals += rep.Evals
		accepted += rep.Accepted
		public += rep.PublicChecks
		for k, v := range rep.Reasons {
			reasons[k] += v
			run.Distinct("class", fmt.Sprintf("%s|%s", jb, k))
		}
		for _, inc := range rep.Inconclusive {
			run.NotExhaustive(inc)
		}
		for k, v := range rep.Extra {
			run.Count(k, int64(v))
		}
		for _, v := range rep.Violations {
			if len(v.Sig) >= 8 && v.Sig[:8] == "harness/" {
				fmt.Printf("HARNESS ERROR job %s: %v\n", jb, v.Detail)
				run.Count("harness_errors", 1)
				run.NotExhaustive("harness error in job")
				continue
			}
			run.Violation(v.Sig, map[string]interface{}{"job": json.RawMessage(jb), "detail": v.Detail, "replay": mkReplay(kind, jobs[i])})
		}
		for _, s := range rep.Samples {
			run.Sample(s)
		}
	}
	run.Coverage["evaluations"] = evals
	run.Coverage["accepted"] = accepted
	run.Coverage["verdict_classes"] = reasons
	run.Coverage["public_observable_checks"] = public
	run.Coverage["configurations"] = len(jobs)
	run.Coverage["distinct_nontrivial"] = run.DistinctCount("class")
	run.Coverage["rule"] = rule
	rc := run.Finish()
	if run.Counter("harness_errors") > 0 && rc == 0 {
		return 3
	}
	return rc
}

func tailStr(s string, n int) string {
	if len(s) > n {
		return s[len(s)-n:]
	}
	return s
}

func firstLine(s string) string {
	for i := 0; i < len(s); i++ {
		if s[i] == '\n' {
			return s[:i]
		}
	}
	return s
}

var _ = binary.LittleEndian

type namedBytes struct {
	name string
	b    []byte
}

var secpN, _ = new(big.Int).SetString("fffffffffffffffffffffffffffffffebaaedce6af48a03bbfd25e8cd0364141", 16)

// sigVariants derives datagrams whose signature is algebraically related to
// the genuine one.
func sigVariants(valid []byte) []namedBytes {
	mk := func(name string, r, sv []byte) namedBytes {
		b := append([]byte(nil), valid...)
		copy(b[16:48], r)
		copy(b[48:80], sv)
		return namedBytes{name, b}
	}
	r := valid[16:48]
	sb := valid[48:80]
	twin := new(big.Int).Sub(secpN, new(big.Int).SetBytes(sb)).FillBytes(make([]byte, 32))
	rneg := new(big.Int).Sub(secpN, new(big.Int).SetBytes(r)).FillBytes(make([]byte, 32))
	zero := make([]byte, 32)
	return []namedBytes{
		mk("high-s-twin", r, twin),
		mk("negated-r", rneg, sb),
		mk("negated-r-and-s", rneg, twin),
		mk("s-zero", r, zero),
		mk("r-zero", zero, sb),
	}
}
