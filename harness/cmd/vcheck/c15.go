package main

// C15 - wire and disk encodings are exact, stable and unambiguous.
// Exhaustive enumeration of per-field boundary products for every structure,
// against independently written little-endian reference encoders; every length
// around the valid one; every single-bit flip of signing bytes, signature and
// key; pairwise distinctness of all signing-byte strings of the corpus.

import (
	"bytes"
	"encoding/binary"
	"encoding/json"
	"fmt"
	"math"
	"reflect"
	"strings"

	"github.com/glowlabs-org/gca-backend/client"
	"github.com/glowlabs-org/gca-backend/glow"
	"github.com/glowlabs-org/gca-backend/server"
)

func pat(b byte, n int) []byte { return bytes.Repeat([]byte{b}, n) }

func pk(b byte) (k glow.PublicKey) {
	for i := range k {
		k[i] = b + byte(i)
	}
	return
}

func sg(b byte) (s glow.Signature) {
	for i := range s {
		s[i] = b ^ byte(i*7)
	}
	return
}

func c15(tier string) int {
	run := newRun("C15", tier, "exploration")
	signing := map[string]string{} // signing bytes -> "type:value" for pairwise distinctness
	addSigning := func(typ, val string, sb []byte) {
		k := string(sb)
		id := typ + ":" + val
		if old, ok := signing[k]; ok && old != id {
			run.Violation("signing-bytes-collide/"+typ+"-vs-"+strings.SplitN(old, ":", 2)[0], map[string]interface{}{"a": old, "b": id})
		}
		signing[k] = id
	}
	bad := func(sig string, detail interface{}) { run.Violation(sig, detail) }
	u32s := []uint32{0, 1, 0x01020304, 1<<31 - 1, 1 << 31, 1<<32 - 1}
	u64s := []uint64{0, 1, 0x0102030405060708, 1<<63 - 1, 1 << 63, 1<<64 - 1}
	floats := []float64{0, math.Copysign(0, -1), math.SmallestNonzeroFloat64, -math.SmallestNonzeroFloat64, math.MaxFloat64, -math.MaxFloat64, 38.123, -85.5, 1e-300}

	// ---- EquipmentReport ----
	for _, id := range u32s {
		for _, ts := range u32s {
			for _, p := range u64s {
				r := glow.EquipmentReport{ShortID: id, Timeslot: ts, PowerOutput: p, Signature: sg(byte(id))}
				run.Count("evaluations", 1)
				b := r.Serialize()
				if !bytes.Equal(b, refReportBytes(id, ts, p, r.Signature)) {
					bad("report/serialize-layout", fmt.Sprintf("%+v", r))
				}
				if !bytes.Equal(r.SigningBytes(), refReportSigningBytes(id, ts, p)) {
					bad("report/signing-bytes-layout", fmt.Sprintf("%d %d %d", id, ts, p))
				}
				d, err := glow.DeserializeReport(b)
				if err != nil || d != r {
					bad("report/round-trip", fmt.Sprintf("%+v", r))
				}
				addSigning("report", fmt.Sprintf("%d/%d/%d", id, ts, p), r.SigningBytes())
				run.Distinct("value", fmt.Sprintf("report/%d/%d/%d", id, ts, p))
			}
		}
	}
	valid := glow.EquipmentReport{ShortID: 5, Timeslot: 6, PowerOutput: 7}.Serialize()
	for l := 0; l <= 82; l++ {
		in := make([]byte, l)
		copy(in, valid)
		_, err := glow.DeserializeReport(in)
		run.Count("evaluations", 1)
		if (err == nil) != (l == 80) {
			bad("report/length-check", fmt.Sprintf("length %d: err=%v", l, err))
		}
	}

	// ---- EquipmentAuthorization ----
	var auths []glow.EquipmentAuthorization
	for _, id := range []uint32{0, 1, 1<<32 - 1} {
		for _, la := range floats {
			for _, lo := range []float64{0, -85.5, math.MaxFloat64, math.SmallestNonzeroFloat64} {
				for _, c := range u64s {
					ea := glow.EquipmentAuthorization{ShortID: id, PublicKey: pk(byte(id)), Latitude: la, Longitude: lo, Capacity: c, Debt: c ^ 0x55, Expiration: id ^ 7, Initialization: id + 3, ProtocolFee: ^c, Signature: sg(9)}
					auths = append(auths, ea)
				}
			}
		}
	}
	for _, e := range u32s {
		auths = append(auths, glow.EquipmentAuthorization{ShortID: 9, Expiration: e, Initialization: ^e})
	}
	for i := range auths {
		ea := auths[i]
		run.Count("evaluations", 1)
		b := ea.Serialize()
		if !bytes.Equal(b, refAuthBytes(ea)) {
			bad("authorization/serialize-layout", fmt.Sprintf("%+v", ea))
		}
		if !bytes.Equal(ea.SigningBytes(), refAuthSigningBytes(ea)) {
			bad("authorization/signing-bytes-layout", fmt.Sprintf("%+v", ea))
		}
		d, err := glow.DeserializeEquipmentAuthorization(b)
		if err != nil || !bytes.Equal(refAuthBytes(d), refAuthBytes(ea)) {
			bad("authorization/round-trip", fmt.Sprintf("%+v", ea))
		}
		// JSON transport, decoded the way the server's handler does
		js, err := json.Marshal(ea)
		var back glow.EquipmentAuthorization
		if err != nil || json.NewDecoder(bytes.NewReader(js)).Decode(&back) != nil || !bytes.Equal(refAuthBytes(back), refAuthBytes(ea)) {
			bad("authorization/json-transport", fmt.Sprintf("lat=%v long=%v json=%s", ea.Latitude, ea.Longitude, js))
		}
		addSigning("authorization", fmt.Sprintf("%x", refAuthBody(ea)), ea.SigningBytes())
		run.Distinct("value", fmt.Sprintf("auth/%x", keccak(b)))
	}
	va := auths[3].Serialize()
	for l := 0; l <= 150; l++ {
		in := make([]byte, l)
		copy(in, va)
		_, err := glow.DeserializeEquipmentAuthorization(in)
		run.Count("evaluations", 1)
		if (err == nil) != (l == 148) {
			bad("authorization/length-check", fmt.Sprintf("length %d: err=%v", l, err))
		}
	}

	// ---- GCARegistration ----
	for _, b := range []byte{0, 1, 0x7f, 0xff} {
		gr := server.GCARegistration{GCAKey: pk(b)}
		run.Count("evaluations", 1)
		if !bytes.Equal(gr.SigningBytes(), refRegistrationSigningBytes(gr.GCAKey)) {
			bad("registration/signing-bytes-layout", b)
		}
		addSigning("registration", fmt.Sprint(b), gr.SigningBytes())
		js, _ := json.Marshal(gr)
		var back server.GCARegistration
		if json.Unmarshal(js, &back) != nil || back != gr {
			bad("registration/json-transport", b)
		}
	}

	// ---- AuthorizedServer and EquipmentMigration ----
	var servers []server.AuthorizedServer
	for _, ll := range []int{0, 1, 9, 255} {
		for _, bn := range []bool{false, true} {
			for _, port := range []uint16{0, 1, 0x0102, 65535} {
				servers = append(servers, server.AuthorizedServer{PublicKey: pk(byte(ll)), Banned: bn, Location: strings.Repeat("x", ll), HttpPort: port, TcpPort: port ^ 0xff, UdpPort: ^port, GCAAuthorization: sg(3)})
			}
		}
	}
	for i := range servers {
		as := servers[i]
		run.Count("evaluations", 1)
		if !bytes.Equal(as.Serialize(), refServerBytes(as)) {
			bad("authorized-server/serialize-layout", fmt.Sprintf("%+v", as))
		}
		if !bytes.Equal(as.SigningBytes(), refServerSigningBytes(as)) {
			bad("authorized-server/signing-bytes-layout", fmt.Sprintf("%+v", as))
		}
		addSigning("authorized-server", fmt.Sprintf("%x", refServerBody(as)), as.SigningBytes())
		run.Distinct("value", fmt.Sprintf("server/%x", keccak(as.Serialize())))
	}
	// locations beyond what the one-byte length field can express are refused by the server, but whoever signs or
	// verifies one must still be talking about ALL of its bytes: entries differing only beyond byte 255 never share
	// signing bytes
	for _, ll := range []int{256, 257, 300, 511, 512} {
		base := server.AuthorizedServer{PublicKey: pk(7), Location: strings.Repeat("x", ll), HttpPort: 1, TcpPort: 2, UdpPort: 3}
		variants := []server.AuthorizedServer{base, base, base, base}
		variants[1].Location = base.Location[:ll-1] + "y"
		variants[2].Location = base.Location[:255] + "z" + base.Location[256:]
		variants[3].Location = base.Location[:255]
		for _, v := range variants {
			run.Count("evaluations", 1)
			addSigning("authorized-server", fmt.Sprintf("long/%x/%d", keccak([]byte(v.Location)), len(v.Location)), v.SigningBytes())
		}
	}
	for n := 0; n <= 2; n++ {
		for _, id := range []uint32{0, 77, 1<<32 - 1} {
			em := server.EquipmentMigration{Equipment: pk(1), NewGCA: pk(2), NewShortID: id, Signature: sg(5)}
			for k := 0; k < n; k++ {
				em.NewServers = append(em.NewServers, servers[(k*7+int(id))%len(servers)])
			}
			run.Count("evaluations", 1)
			if !bytes.Equal(em.Serialize(), append(refMigrationBody(em), em.Signature[:]...)) {
				bad("migration/serialize-layout", fmt.Sprint(n, id))
			}
			if !bytes.Equal(em.SigningBytes(), refMigrationSigningBytes(em)) {
				bad("migration/signing-bytes-layout", fmt.Sprint(n, id))
			}
			addSigning("migration", fmt.Sprintf("%x", refMigrationBody(em)), em.SigningBytes())
			js, _ := json.Marshal(em)
			var back server.EquipmentMigration
			if json.Unmarshal(js, &back) != nil || !bytes.Equal(back.Serialize(), em.Serialize()) {
				bad("migration/json-transport", fmt.Sprint(n, id))
			}
		}
	}

	// ---- weekly statistics stream ----
	mkWeek := func(nDev int, off uint32, seed uint64) (server.AllDeviceStats, weekRecord) {
		ads := server.AllDeviceStats{TimeslotOffset: off, Signature: sg(byte(seed))}
		wr := weekRecord{Offset: off, Sig: ads.Signature}
		for d := 0; d < nDev; d++ {
			var ds server.DeviceStats
			ds.PublicKey = pk(byte(d + int(seed)))
			for i := 0; i < 2016; i += 97 {
				ds.PowerOutputs[i] = u64s[(i+d)%len(u64s)] ^ seed
				ds.ImpactRates[i] = floats[(i+d)%len(floats)]
			}
			ds.PowerOutputs[2015], ds.ImpactRates[2015] = 1<<64-1, -0.0
			// the values the server gives a meaning to (0 blank, 1 banned, 2 and 3 client sentinels) are values like any other
			ds.PowerOutputs[1], ds.PowerOutputs[2], ds.PowerOutputs[3], ds.PowerOutputs[4] = 1, 2, 3, 0
			ds.ImpactRates[1], ds.ImpactRates[2] = 1, 0
			ads.Devices = append(ads.Devices, ds)
			wr.Devices = append(wr.Devices, weekDevice{Key: ds.PublicKey, Power: ds.PowerOutputs, Rate: ds.ImpactRates})
		}
		return ads, wr
	}
	var stream []byte
	var recs []weekRecord
	for i, nd := range []int{0, 1, 2, 0, 1} {
		ads, wr := mkWeek(nd, uint32(i)*2016, uint64(i+1))
		run.Count("evaluations", 1)
		b := ads.Serialize()
		if !bytes.Equal(b, refWeekBytes(wr)) {
			bad("weekly-stats/serialize-layout", fmt.Sprint("devices=", nd))
		}
		if !bytes.Equal(ads.SigningBytes(), refWeekSigningBytes(wr)) {
			bad("weekly-stats/signing-bytes-layout", fmt.Sprint("devices=", nd))
		}
		addSigning("weekly-stats", fmt.Sprintf("%d/%d", nd, i), ads.SigningBytes())
		stream = append(stream, b...)
		recs = append(recs, wr)
		// stream of 0..k records decodes record by record
		rest := stream
		for k := 0; k <= i; k++ {
			got, n, err := server.DeserializeStreamAllDeviceStats(rest)
			if err != nil || !bytes.Equal(got.Serialize(), refWeekBytes(recs[k])) || n != len(refWeekBytes(recs[k])) {
				bad("weekly-stats/stream-decode", fmt.Sprintf("record %d of %d: err=%v", k, i+1, err))
				break
			}
			rest = rest[n:]
		}
		if len(rest) != 0 {
			bad("weekly-stats/stream-decode", "trailing bytes")
		}
	}
	// every proper prefix of a zero-device record and a strided set of prefixes of a one-device record is refused
	z, _ := mkWeek(0, 0, 1)
	zb := z.Serialize()
	for l := 0; l < len(zb); l++ {
		_, _, err := server.DeserializeStreamAllDeviceStats(zb[:l])
		run.Count("evaluations", 1)
		if err == nil {
			bad("weekly-stats/truncation-accepted", fmt.Sprintf("zero-device record cut to %d of %d bytes", l, len(zb)))
		}
	}
	o, _ := mkWeek(1, 2016, 2)
	ob := o.Serialize()
	stride := 61
	if tier == "thorough" {
		stride = 1
	}
	for l := 0; l < len(ob); l += stride {
		_, _, err := server.DeserializeStreamAllDeviceStats(ob[:l])
		run.Count("evaluations", 1)
		if err == nil {
			bad("weekly-stats/truncation-accepted", fmt.Sprintf("one-device record cut to %d of %d bytes", l, len(ob)))
		}
	}
	for _, l := range []int{len(ob) - 1, len(ob) - 63, len(ob) - 64, len(ob) - 65, len(ob) - 68, 4, 36, 37} {
		if _, _, err := server.DeserializeStreamAllDeviceStats(ob[:l]); err == nil {
			bad("weekly-stats/truncation-accepted", fmt.Sprintf("one-device record cut to %d", l))
		}
	}

	// ---- client server map ----
	for _, n := range []int{0, 1, 2, 3} {
		for _, ll := range []int{0, 1, 255, 256, 65535} {
			m := map[glow.PublicKey]client.GCAServer{}
			for k := 0; k < n; k++ {
				m[pk(byte(k*3+ll))] = client.GCAServer{Banned: k%2 == 1, Location: strings.Repeat("y", ll), HttpPort: uint16(k), TcpPort: 0x0102, UdpPort: 65535}
			}
			run.Count("evaluations", 1)
			raw, err := client.SerializeGCAServerMap(m)
			if err != nil {
				bad("server-map/serialize-error", fmt.Sprint(n, ll, err))
				continue
			}
			// independent decode: key32 | banned1 | len2 LE | location | 3 x port2 LE
			ref := map[glow.PublicKey]client.GCAServer{}
			b := raw
			okRef := true
			for len(b) > 0 {
				if len(b) < 35 {
					okRef = false
					break
				}
				var k glow.PublicKey
				copy(k[:], b[:32])
				bn := b[32] != 0
				l := int(binary.LittleEndian.Uint16(b[33:35]))
				if len(b) < 35+l+6 {
					okRef = false
					break
				}
				e := client.GCAServer{Banned: bn, Location: string(b[35 : 35+l])}
				e.HttpPort = binary.LittleEndian.Uint16(b[35+l:])
				e.TcpPort = binary.LittleEndian.Uint16(b[37+l:])
				e.UdpPort = binary.LittleEndian.Uint16(b[39+l:])
				ref[k] = e
				b = b[41+l:]
			}
			if !okRef || !reflect.DeepEqual(ref, m) {
				bad("server-map/layout", fmt.Sprint(n, ll))
			}
			back, err := client.UntrustedDeserializeGCAServerMap(raw)
			if err != nil || !reflect.DeepEqual(back, m) {
				bad("server-map/round-trip", fmt.Sprint(n, ll, err))
			}
			if n > 0 && ll <= 256 {
				step := 1
				if ll > 1 {
					step = 17
				}
				for l := 1; l < len(raw); l += step {
					if len(raw) > 41+ll && l%(41+ll) == 0 {
						continue // a whole number of entries is a valid (shorter) map
					}
					if _, err := client.UntrustedDeserializeGCAServerMap(raw[:l]); err == nil {
						bad("server-map/truncation-accepted", fmt.Sprintf("n=%d loc=%d cut to %d of %d", n, ll, l, len(raw)))
						break
					}
					run.Count("evaluations", 1)
				}
			}
		}
	}
	// maps whose entries have locations of DIFFERENT lengths, as reference-encoded images in every order of the
	// entries (the repository's encoder walks a Go map, so the order on disk is arbitrary): each must decode to
	// exactly the entries that were encoded
	{
		locs := []string{"", "7", "10.0.0.7:", "gca-server-1.example.org", strings.Repeat("w", 255)}
		entry := func(i int) (glow.PublicKey, client.GCAServer, []byte) {
			e := client.GCAServer{Banned: i%2 == 0, Location: locs[i], HttpPort: uint16(1000 + i), TcpPort: uint16(2000 + i), UdpPort: uint16(3000 + i)}
			k := pk(byte(100 + i))
			b := append([]byte{}, k[:]...)
			bn := byte(0)
			if e.Banned {
				bn = 1
			}
			b = append(b, bn, byte(len(e.Location)), byte(len(e.Location)>>8))
			b = append(b, e.Location...)
			for _, p := range []uint16{e.HttpPort, e.TcpPort, e.UdpPort} {
				b = append(b, byte(p), byte(p>>8))
			}
			return k, e, b
		}
		var orders [][]int
		for a := range locs {
			for b := range locs {
				if a == b {
					continue
				}
				orders = append(orders, []int{a, b})
				for c := range locs {
					if c != a && c != b {
						orders = append(orders, []int{a, b, c})
					}
				}
			}
		}
		for _, o := range orders {
			want := map[glow.PublicKey]client.GCAServer{}
			var img []byte
			for _, i := range o {
				k, e, b := entry(i)
				want[k] = e
				img = append(img, b...)
			}
			run.Count("evaluations", 1)
			got, err := client.UntrustedDeserializeGCAServerMap(img)
			if err != nil || !reflect.DeepEqual(got, want) {
				bad("server-map/mixed-length-order", fmt.Sprintf("location lengths in image order %v: err=%v", o, err))
				break
			}
			// and what the repository encodes from that map decodes to it again, whatever order it chose
			raw, err := client.SerializeGCAServerMap(want)
			if back, err2 := client.UntrustedDeserializeGCAServerMap(raw); err != nil || err2 != nil || !reflect.DeepEqual(back, want) {
				bad("server-map/mixed-length-round-trip", fmt.Sprint(o, err, err2))
				break
			}
		}
	}
	// truncations of one-entry maps whose location length is at the top of the uint16 range (length arithmetic
	// that wraps would let a cut input through): every cut in the first and last 64 bytes, strided in between
	for _, ll := range []int{65529, 65530, 65531, 65534, 65535} {
		m := map[glow.PublicKey]client.GCAServer{pk(9): {Banned: true, Location: strings.Repeat("q", ll), HttpPort: 1, TcpPort: 2, UdpPort: 3}}
		raw, err := client.SerializeGCAServerMap(m)
		if err != nil {
			bad("server-map/serialize-error", fmt.Sprint(ll, err))
			continue
		}
		if back, err := client.UntrustedDeserializeGCAServerMap(raw); err != nil || !reflect.DeepEqual(back, m) {
			bad("server-map/round-trip", fmt.Sprint("location length ", ll, err))
		}
		for l := 1; l < len(raw); l++ {
			if l > 64 && l < len(raw)-64 && l%251 != 0 {
				continue
			}
			run.Count("evaluations", 1)
			if got, err := client.UntrustedDeserializeGCAServerMap(raw[:l]); err == nil {
				bad("server-map/truncation-accepted", fmt.Sprintf("location length %d: input cut to %d of %d bytes decoded to %d entries", ll, l, len(raw), len(got)))
				break
			}
		}
	}
	if _, err := client.SerializeGCAServerMap(map[glow.PublicKey]client.GCAServer{pk(1): {Location: strings.Repeat("z", 65536)}}); err == nil {
		bad("server-map/oversized-location-accepted", "location of 65536 bytes serialised")
	}

	// ---- signatures ----
	kp := key("c15/signer")
	msgs := [][]byte{refReportSigningBytes(1, 2, 3), refAuthSigningBytes(auths[7]), refRegistrationSigningBytes(pk(4)), {}, pat(0xff, 200)}
	for mi, msg := range msgs {
		s1 := glow.Sign(msg, kp.Priv)
		s2 := glow.Sign(msg, kp.Priv)
		run.Count("evaluations", 1)
		if s1 != s2 {
			bad("signature/not-deterministic", mi)
		}
		if !glow.Verify(kp.Pub, msg, s1) || !refVerify(kp.Pub, msg, s1) {
			bad("signature/own-signature-rejected", mi)
		}
		if mi > 2 {
			continue
		}
		for bit := 0; bit < len(msg)*8; bit++ {
			m := append([]byte(nil), msg...)
			m[bit/8] ^= 1 << (bit % 8)
			run.Count("evaluations", 1)
			if glow.Verify(kp.Pub, m, s1) {
				bad("signature/flipped-message-verifies", fmt.Sprint(mi, bit))
			}
		}
		for bit := 0; bit < 512; bit++ {
			s := s1
			s[bit/8] ^= 1 << (bit % 8)
			run.Count("evaluations", 1)
			if glow.Verify(kp.Pub, msg, s) {
				bad("signature/flipped-signature-verifies", fmt.Sprint(mi, bit))
			}
		}
		for bit := 0; bit < 256; bit++ {
			k := kp.Pub
			k[bit/8] ^= 1 << (bit % 8)
			run.Count("evaluations", 1)
			if glow.Verify(k, msg, s1) {
				bad("signature/flipped-key-verifies", fmt.Sprint(mi, bit))
			}
		}
		for _, v := range sigVariants(append(make([]byte, 16), s1[:]...)) {
			var s glow.Signature
			copy(s[:], v.b[16:80])
			run.Count("evaluations", 1)
			if glow.Verify(kp.Pub, msg, s) {
				bad("signature/malleated-signature-verifies/"+v.name, mi)
			}
		}
	}
	// generated keys carry the 0x02 prefix convention: a key pair signs and verifies
	for i := 0; i < 8; i++ {
		pub, priv := glow.GenerateKeyPair()
		run.Count("evaluations", 1)
		if !glow.Verify(pub, msgs[0], glow.Sign(msgs[0], priv)) || !refVerify(pub, msgs[0], glow.Sign(msgs[0], priv)) {
			bad("signature/generated-key-unusable", i)
		}
	}
	run.Coverage["evaluations"] = run.Counter("evaluations")
	run.Coverage["distinct_nontrivial"] = len(signing)
	run.Coverage["distinct_signing_byte_strings"] = len(signing)
	run.Coverage["rule"] = "boundary products per field (0, 1, mid pattern, sign bit, max; floats 0, -0, +-smallest subnormal, +-max, 3-decimal values) for report, authorization, registration, authorized server, migration order, weekly statistics (0-2 devices, streams of 1-5 records), client server map (0-3 entries, location lengths 0/1/255/256/65535/65536; plus all 80 ordered images of 2-3 entries with pairwise different location lengths 0/1/9/24/255); bytes compared with independent little-endian reference encoders; every length 0..len+2 for fixed-size structures and every/strided prefix for streams; all single-bit flips of message, signature and key for three messages; distinct = distinct signing-byte strings in the corpus (checked pairwise distinct across values and types)"
	run.Sample(fmt.Sprintf("report signing bytes for (1,2,3): %x", refReportSigningBytes(1, 2, 3)))
	run.Sample(fmt.Sprintf("authorization with latitude -0, subnormal longitude: %x...", refAuthBytes(auths[5])[:60]))
	return run.Finish()
}

func init() { checks["C15"] = c15 }
