package main

// C10 - sync replies parse to the server's data and are accepted only when
// authentic. For every server state of a finite family: real handler -> real
// client parser; then every single-bit flip, every truncation, re-signings,
// timestamp shifts, foreign bindings and unsigned entries must be rejected.

import (
	"bytes"
	"encoding/json"
	"fmt"
	"strings"

	"github.com/glowlabs-org/gca-backend/glow"
	"github.com/glowlabs-org/gca-backend/server"

	"verifh/pool"
)

type c10Job struct {
	Name string   `json:"name"`
	Init []string `json:"init"`
	Full bool     `json:"full"` // all bit flips / truncations, or a stride
}

func c10States() []c10Job {
	var out []c10Job
	reports := func(base string, slots ...int) []string {
		var ops []string
		for _, s := range slots {
			ops = append(ops, fmt.Sprintf("nowoff:%d", s), "rep:0:kDev:now:500")
		}
		return ops
	}
	edge := reports("", 0, 1, 7, 8, 4030, 4031)
	// negative (>= 2^63) and near-2^63 readings are records like any other
	edge = append(edge, "nowoff:15", "rep:0:kDev:now:neg", "nowoff:16", "rep:0:kDev:now:9223372036854775808", "nowoff:17", "rep:0:kDev:now:18446744073709551615")
	banned := append(reports("", 9), "rep:0:kDev:now:600") // second distinct report: banned slot still has a record
	out = append(out, c10Job{Name: "no reports", Init: []string{"now:0"}})
	out = append(out, c10Job{Name: "edge slots at offset 0", Init: append(append([]string{}, edge...), banned...)})
	out = append(out, c10Job{Name: "edge slots at offset 2016", Init: append(append([]string{"rot"}, edge...), banned...)})
	out = append(out, c10Job{Name: "one server, empty location", Init: []string{"sauth:S1:0:1:G1:0"}})
	out = append(out, c10Job{Name: "one server, 1-byte location", Init: []string{"sauth:S1:0:1:G1:1"}})
	out = append(out, c10Job{Name: "one server, 255-byte location, banned", Init: []string{"sauth:S1:0:1:G1:255", "sauth:S1:1:1:G1:255"}})
	out = append(out, c10Job{Name: "a 256-byte location is refused, a 255-byte one listed", Init: []string{"sauth:S1:0:1:G1:256", "sauth:S2:0:4:G1:255"}})
	out = append(out, c10Job{Name: "a 300-byte location is refused, then a second server", Init: []string{"sauth:S1:0:1:G1:300", "sauth:S2:0:4:G1:9"}})
	out = append(out, c10Job{Name: "two servers and reports", Init: append([]string{"sauth:S1:0:1:G1:9", "sauth:S2:1:4:G1:9"}, edge...)})
	out = append(out, c10Job{Name: "banned server followed by a live one (same location length)", Init: []string{"sauth:S1:0:1:G1:9", "sauth:S2:0:4:G1:9", "sauth:S1:1:1:G1:9"}})
	out = append(out, c10Job{Name: "banned server followed by live ones with shorter and longer locations", Init: []string{"sauth:S1:0:1:G1:40", "sauth:S2:0:4:G1:9", "sauth:S3:0:7:G1:60", "sauth:S1:1:1:G1:40"}})
	out = append(out, c10Job{Name: "server listed, requests answered, then banned (anything remembered from the first answers is stale)", Init: []string{"sauth:S1:0:1:G1:9", "sauth:S2:0:4:G1:9", "touch", "sauth:S1:1:1:G1:9", "touch", "sauth:S3:0:7:G1:9"}})
	out = append(out, c10Job{Name: "requests answered before and after a migration order", Init: []string{"sauth:S1:0:1:G1:9", "touch", "migr:kDev:G3:G1:G3", "touch"}})
	out = append(out, c10Job{Name: "migration with one new server", Init: []string{"migr:kDev:G3:G1:G3"}})
	out = append(out, c10Job{Name: "migration with no new server", Init: []string{"migr0:kDev:G3:G1"}})
	out = append(out, c10Job{Name: "migration for another device only", Init: []string{"migr:kOther:G3:G1:G3"}})
	out = append(out, c10Job{Name: "servers and migration", Init: append([]string{"sauth:S1:0:1:G1:9", "migr:kDev:G3:G1:G3"}, edge...)})
	return out
}

func c10Run(j c10Job) *jobReport {
	rep := &jobReport{Reasons: map[string]int{}}
	p, err := newPairWorld("c10", 1000, j.Init, nil, 0)
	if err != nil {
		if strings.Contains(err.Error(), "init op") {
			// the server answered a set-up operation differently from the reference model: the state this job is about does not exist
			rep.fail("setup-operation-disagrees-with-the-model", map[string]interface{}{"state": j.Name, "what": err.Error()})
			return rep
		}
		rep.fail("harness/setup", err.Error())
		return rep
	}
	poisoned := false
	defer func() {
		r := &bfsResult{}
		p.finish(r, poisoned)
		for _, v := range r.Violations {
			rep.fail(v.Sig, v.Detail)
		}
	}()
	gca := key("G1")
	srvKey := p.Srv.Srv
	cfg := fmt.Sprintf("state %q", j.Name)
	parse := func() (off uint32, bits [504]byte, ng glow.PublicKey, nid uint32, list []server.AuthorizedServer, err error, pan string) {
		pan = safely(func() { off, bits, ng, nid, list, err = p.Cli.C.VerifServerSync(p.entry(), srvKey.Pub, gca.Pub) })
		return
	}
	// O1: the genuine reply parses to the server's data
	snap := p.Srv.S.VerifSnapshot()
	off, bits, ng, nid, list, perr, pan := parse()
	rep.Evals++
	if pan != "" {
		rep.fail("panic/genuine", map[string]interface{}{"config": cfg, "panic": firstLine(pan)})
		return rep
	}
	if perr != nil {
		rep.fail("genuine-reply-rejected", map[string]interface{}{"config": cfg, "err": perr.Error()})
		return rep
	}
	rep.Accepted++
	if off != snap.ReportsOffset {
		rep.fail("parsed-offset-differs", map[string]interface{}{"config": cfg, "parsed": off, "server": snap.ReportsOffset})
	}
	has := map[uint32]bool{}
	for _, sl := range snap.Reports[p.ID] {
		has[sl.Index] = true
	}
	nbits := 0
	for i := 0; i < mWindow; i++ {
		bit := bits[i/8]&(1<<(i%8)) != 0
		if bit {
			nbits++
		}
		if bit != has[uint32(i)] {
			rep.fail("parsed-bitfield-differs", map[string]interface{}{"config": cfg, "bit": i, "parsed": bit, "server_has_record": has[uint32(i)]})
			break
		}
	}
	mig, hasMig := snap.Migrations[p.Dev.Pub]
	if hasMig {
		if ng != mig.NewGCA || nid != mig.NewShortID || !sameServers(list, mig.NewServers) {
			rep.fail("parsed-migration-differs", cfg)
		}
	} else {
		if ng != (glow.PublicKey{}) || !sameServers(list, snap.Servers) {
			rep.fail("parsed-server-list-differs", map[string]interface{}{"config": cfg, "parsed": len(list), "server": len(snap.Servers)})
		}
	}
	rep.Reasons[fmt.Sprintf("genuine: %d bits, %d servers, migration=%v", nbits, len(list), hasMig)]++
	// unknown device id is refused
	raw, _ := p.Srv.syncRaw(idBytes(999))
	if !(len(raw) == 1 && raw[0] == 0) {
		rep.fail("unknown-id-not-refused", cfg)
	}
	genuine, _ := p.Srv.syncRaw(idBytes(p.ID))
	if g2, _ := p.Srv.syncRaw(idBytes(p.ID)); !bytes.Equal(genuine, g2) {
		rep.fail("harness/nondeterministic-reply", cfg)
		return rep
	}
	body := genuine[2 : len(genuine)-64]
	before := fmt.Sprintf("%+v", p.Cli.C.VerifState())
	mustReject := func(class string, reply []byte) {
		p.Hub.serveBytes(p.Addr.tcpAddr(), func([]byte) []byte { return reply })
		_, _, _, _, _, e, pn := parse()
		rep.Evals++
		rep.Reasons[class]++
		if pn != "" {
			rep.fail("panic/"+class, map[string]interface{}{"config": cfg, "panic": firstLine(pn)})
			return
		}
		if e == nil {
			rep.fail("tampered-reply-accepted/"+class, map[string]interface{}{"config": cfg, "reply_len": len(reply)})
		}
	}
	mustAccept := func(class string, reply []byte) {
		p.Hub.serveBytes(p.Addr.tcpAddr(), func([]byte) []byte { return reply })
		o2, b2, _, _, l2, e, pn := parse()
		rep.Evals++
		rep.Reasons[class]++
		if pn != "" || e != nil || o2 != off || b2 != bits || len(l2) != len(list) {
			rep.fail("authentic-reply-rejected/"+class, map[string]interface{}{"config": cfg, "err": fmt.Sprint(e), "panic": firstLine(pn)})
		}
	}
	stride := 1
	if !j.Full {
		stride = 7
	}
	// every single-bit flip of body and signature (the two prefix bytes are covered by the truncation/extension family)
	for bit := 16; bit < len(genuine)*8; bit += stride {
		m := append([]byte(nil), genuine...)
		m[bit/8] ^= 1 << (bit % 8)
		mustReject("bit-flip", m)
	}
	// every truncation of the stream, and prefix rewritten to the cut length
	for l := 0; l < len(genuine); l += stride {
		mustReject("stream-cut", genuine[:l])
		if l >= 2 {
			c := append([]byte{byte(l - 2), byte((l - 2) >> 8)}, genuine[2:l]...)
			mustReject("cut-with-rewritten-prefix", c)
		}
	}
	// extension: bytes after the announced length are not part of the reply
	mustAccept("trailing-garbage", append(append([]byte(nil), genuine...), 1, 2, 3))
	// announced length larger than the data
	{
		m := append([]byte(nil), genuine...)
		l := len(genuine) - 2 + 5
		m[0], m[1] = byte(l), byte(l>>8)
		mustReject("prefix-too-large", m)
	}
	// re-signing under every other key in the system
	for _, k := range []struct {
		n string
		k keyPair
	}{{"gca", gca}, {"temp", p.Srv.Temp}, {"device", p.Dev}, {"other-server", key("server-S1")}} {
		mustReject("re-signed-by-"+k.n, frame(body, k.k.Priv))
	}
	// timestamp shifts, re-signed by the real server
	ts := nowUnix()
	for _, d := range []struct {
		delta int64
		ok    bool
	}{{86400, true}, {-86400, true}, {86401, false}, {-86401, false}, {1 << 40, false}, {-int64(ts), false},
		// distances that are small again after a multiplication by 10^9 or 10^6 wraps around 2^64 (arithmetic in nanoseconds / microseconds)
		{1 << 55, false}, {-(1 << 55), false}, {3 << 55, false}, {1<<55 + 3600, false}, {1<<62 + 1<<61, false}, {-(1 << 62), false},
		{1 << 58, false}, {1 << 45, false}, {-(1 << 45), false}, {1<<45 + 60, false}} {
		b := append([]byte(nil), body...)
		putU64(b[len(b)-8:], uint64(int64(ts)+d.delta))
		if d.ok {
			mustAccept(fmt.Sprintf("timestamp%+d", d.delta), frame(b, srvKey.Priv))
		} else {
			mustReject("timestamp-out-of-range", frame(b, srvKey.Priv))
		}
	}
	// bound to another device's key
	{
		b := append([]byte(nil), body...)
		other := key("kOther").Pub
		copy(b[:32], other[:])
		mustReject("bound-to-other-device", frame(b, srvKey.Priv))
	}
	// a server entry that lacks the GCA signature, inside a reply the server really signs
	{
		r := refReply{DevKey: p.Dev.Pub, Offset: off, Bitfield: bits, Timestamp: ts}
		r.Servers = []server.AuthorizedServer{signedServer("S9", false, "10.9.9.9", 1, key("G2").Priv)}
		mustReject("server-entry-signed-by-foreign-gca", r.encode(srvKey.Priv))
		r.Servers = []server.AuthorizedServer{signedServer("S9", false, "10.9.9.9", 1, srvKey.Priv)}
		mustReject("server-entry-signed-by-server", r.encode(srvKey.Priv))
		e := signedServer("S9", false, "10.9.9.9", 1, gca.Priv)
		e.Banned = true // flag changed after signing
		r.Servers = []server.AuthorizedServer{e}
		mustReject("server-entry-altered-after-signing", r.encode(srvKey.Priv))
		// ... and the same forgery after the client has seen (and accepted) the genuine entry whose signature
		// it reuses: nothing remembered from an accepted reply may vouch for different content. Every field.
		seen := append([]server.AuthorizedServer{signedServer("S9", false, "10.9.9.9", 1, gca.Priv)}, list...)
		if hasMig {
			seen = seen[:1] // the entries of a migration order are signed by the new GCA and checked in the migration block
		}
		for _, g := range seen {
			r.Servers = []server.AuthorizedServer{g}
			p.Hub.serveBytes(p.Addr.tcpAddr(), func([]byte) []byte { return r.encode(srvKey.Priv) })
			if _, _, _, _, _, e, pn := parse(); e != nil || pn != "" {
				rep.fail("authentic-reply-rejected/single-genuine-entry", map[string]interface{}{"config": cfg, "err": fmt.Sprint(e), "panic": firstLine(pn)})
				continue
			}
			rep.Evals++
			for _, field := range []string{"banned", "key", "location", "http", "tcp", "udp"} {
				f := g
				switch field {
				case "banned":
					f.Banned = !f.Banned
				case "key":
					f.PublicKey = key("server-forged").Pub
				case "location":
					f.Location += "x"
				case "http":
					f.HttpPort++
				case "tcp":
					f.TcpPort++
				case "udp":
					f.UdpPort++
				}
				r.Servers = []server.AuthorizedServer{f}
				mustReject("accepted-entry-replayed-with-altered-"+field, r.encode(srvKey.Priv))
				r.Servers = []server.AuthorizedServer{g, f}
				mustReject("accepted-entry-followed-by-altered-"+field, r.encode(srvKey.Priv))
			}
		}
		// migration order: outer signature by a key that is not the client's GCA; inner by the old GCA
		g3 := key("G3")
		mk := func(outer, inner keyPair, equip glow.PublicKey) []byte {
			em := server.EquipmentMigration{Equipment: equip, NewGCA: g3.Pub, NewShortID: 77}
			ns := signedServer("N1", false, "10.7.7.7", 1, inner.Priv)
			em.NewServers = []server.AuthorizedServer{ns}
			em.Signature = glow.Sign(refMigrationSigningBytes(em), outer.Priv)
			rr := refReply{DevKey: p.Dev.Pub, Offset: off, Bitfield: bits, Timestamp: ts, NewGCA: g3.Pub, NewID: 77, Servers: em.NewServers, MigSig: em.Signature}
			return rr.encode(srvKey.Priv)
		}
		mustReject("migration-outer-signed-by-new-gca", mk(g3, g3, p.Dev.Pub))
		mustReject("migration-outer-signed-by-server", mk(srvKey, g3, p.Dev.Pub))
		mustReject("migration-inner-signed-by-old-gca", mk(gca, gca, p.Dev.Pub))
		mustReject("migration-for-another-device", mk(gca, g3, key("kOther").Pub))
		// a perfectly valid migration order of ANOTHER device, in a reply bound to that other device
		{
			other := key("kOther").Pub
			em := server.EquipmentMigration{Equipment: other, NewGCA: g3.Pub, NewShortID: 77}
			em.NewServers = []server.AuthorizedServer{signedServer("N1", false, "10.7.7.7", 1, g3.Priv)}
			em.Signature = glow.Sign(refMigrationSigningBytes(em), gca.Priv)
			rr := refReply{DevKey: other, Offset: off, Bitfield: bits, Timestamp: ts, NewGCA: g3.Pub, NewID: 77, Servers: em.NewServers, MigSig: em.Signature}
			mustReject("other-devices-valid-migration", rr.encode(srvKey.Priv))
		}
		p.Hub.serveBytes(p.Addr.tcpAddr(), func([]byte) []byte { return mk(gca, g3, p.Dev.Pub) })
		_, _, ng2, nid2, l2, e2, pn2 := parse()
		rep.Evals++
		if pn2 != "" || e2 != nil || ng2 != g3.Pub || nid2 != 77 || len(l2) != 1 {
			rep.fail("valid-migration-rejected", map[string]interface{}{"config": cfg, "err": fmt.Sprint(e2)})
		}
		// after that order has been accepted: the same signatures around altered content
		for _, field := range []string{"new-id", "new-gca", "inner-port", "inner-banned", "extra-inner"} {
			em := server.EquipmentMigration{Equipment: p.Dev.Pub, NewGCA: g3.Pub, NewShortID: 77}
			em.NewServers = []server.AuthorizedServer{signedServer("N1", false, "10.7.7.7", 1, g3.Priv)}
			em.Signature = glow.Sign(refMigrationSigningBytes(em), gca.Priv)
			switch field {
			case "new-id":
				em.NewShortID++
			case "new-gca":
				em.NewGCA = key("G2").Pub
			case "inner-port":
				em.NewServers[0].TcpPort++
			case "inner-banned":
				em.NewServers[0].Banned = true
			case "extra-inner":
				em.NewServers = append(em.NewServers, signedServer("N2", false, "10.7.7.8", 1, g3.Priv))
			}
			rr := refReply{DevKey: p.Dev.Pub, Offset: off, Bitfield: bits, Timestamp: ts, NewGCA: em.NewGCA, NewID: em.NewShortID, Servers: em.NewServers, MigSig: em.Signature}
			mustReject("accepted-migration-replayed-with-altered-"+field, rr.encode(srvKey.Priv))
		}
	}
	// reference-encoded replies with arbitrary field values must parse to exactly those values
	if j.Name == "no reports" {
		check := func(class string, r refReply) {
			p.Hub.serveBytes(p.Addr.tcpAddr(), func([]byte) []byte { return r.encode(srvKey.Priv) })
			o2, b2, g2, i2, l2, e, pn := parse()
			rep.Evals++
			rep.Reasons[class]++
			if pn != "" || e != nil {
				rep.fail("reference-reply-rejected/"+class, map[string]interface{}{"err": fmt.Sprint(e), "panic": firstLine(pn)})
				return
			}
			if o2 != r.Offset || b2 != r.Bitfield || g2 != r.NewGCA || i2 != r.NewID || !sameServers(l2, r.Servers) {
				rep.fail("reference-reply-misparsed/"+class, map[string]interface{}{"offset_sent": r.Offset, "offset_parsed": o2})
			}
		}
		for _, o := range []uint32{0, 2016, 0xA1B2C3D4, 1<<32 - 1} {
			check("offset", refReply{DevKey: p.Dev.Pub, Offset: o, Timestamp: ts})
		}
		step := 1
		if !j.Full {
			step = 13
		}
		for i := 0; i < mWindow; i += step {
			r := refReply{DevKey: p.Dev.Pub, Offset: 2016, Timestamp: ts}
			r.Bitfield[i/8] = 1 << (i % 8)
			check("single-bit", r)
		}
		var all refReply
		all = refReply{DevKey: p.Dev.Pub, Timestamp: ts}
		for i := range all.Bitfield {
			all.Bitfield[i] = 0xFF
		}
		check("all-bits", all)
		for _, n := range []int{1, 2, 5} {
			r := refReply{DevKey: p.Dev.Pub, Timestamp: ts}
			for k := 0; k < n; k++ {
				r.Servers = append(r.Servers, signedServer(fmt.Sprintf("L%d", k), k%2 == 1, strings.Repeat("x", []int{0, 1, 255, 17, 100}[k]), uint16(65530+k%3), gca.Priv))
			}
			check("server-list", r)
		}
	}
	if after := fmt.Sprintf("%+v", p.Cli.C.VerifState()); after != before {
		rep.fail("client-state-changed-by-rejected-replies", cfg)
	}
	if !p.Cli.C.VerifTryLock() {
		rep.fail("lock-held", cfg)
		poisoned = true
	}
	rep.Samples = append(rep.Samples, fmt.Sprintf("%s: genuine reply %d bytes, %d bits set, %d list entries", j.Name, len(genuine), nbits, len(list)))
	return rep
}

func sameServers(a, b []server.AuthorizedServer) bool {
	if len(a) != len(b) {
		return false
	}
	for i := range a {
		if !bytes.Equal(refServerBytes(a[i]), refServerBytes(b[i])) {
			return false
		}
	}
	return true
}

func init() {
	pool.Register("c10", func(data json.RawMessage) (interface{}, error) {
		var j c10Job
		if err := json.Unmarshal(data, &j); err != nil {
			return nil, err
		}
		return c10Run(j), nil
	})
	checks["C10"] = func(tier string) int {
		run := newRun("C10", tier, "exploration")
		var jobs []interface{}
		for _, s := range c10States() {
			s.Full = tier == "thorough" || !(strings.Contains(s.Name, "255") || s.Name == "no reports")
			jobs = append(jobs, s)
		}
		run.Assumption("server states are a finite family (edge slots incl. a banned one, offsets 0 and 2016, 0-2 servers with location lengths 0/1/9/255 and banned flags, migration orders with 0-1 new servers); quick uses every 7th bit flip / truncation for the 255-byte-location state only")
		return runJobCheck(run, "c10", jobs, "for each server state: the real handler's reply through the real client parser must equal the server snapshot (key, offset, bit i <=> record at offset+i, GCA-signed list or migration); then every single-bit flip, every stream truncation (plain and with rewritten prefix), re-signing under 4 other keys, timestamps at +-24h (accepted) and +-24h+1s (rejected), binding to another device, server entries and migration orders lacking the required signature - each must be rejected without panic and without state change; distinct = variant classes x state")
	}
}
