package main

// C06, C07 (sequential part), C04, C03: breadth-first search over operation
// histories on the real server (system "ops"), each with the alphabet its
// property quantifies over.

import (
	"strings"

	"verifh/pool"
)

// authFilter keeps the search inside the property's domain: a
// non-conflicting authorization never hands a key that a live device already
// uses to a second id (the property is silent on that).
func authFilter(init []string, ops []string) func(hist []string) []string {
	return func(hist []string) []string {
		live := map[string]string{} // id -> key
		banned := map[string]bool{}
		registered := ""
		for _, op := range append(append([]string{}, init...), hist...) {
			p := strings.Split(op, ":")
			switch p[0] {
			case "reg":
				if registered == "" && p[2] == "temp" && len(p) == 3 {
					registered = p[1]
				}
			case "auth":
				if registered == "" || p[4] != registered || (len(p) > 5 && (p[5] == "flip" || p[5] == "stale")) || banned[p[1]] {
					continue
				}
				variant := p[2] + "/" + p[3]
				if len(p) > 5 {
					variant += "/" + p[5]
				}
				if k, ok := live[p[1]]; ok {
					if k != variant {
						delete(live, p[1])
						banned[p[1]] = true
					}
					continue
				}
				live[p[1]] = variant
			}
		}
		var out []string
		for _, op := range ops {
			p := strings.Split(op, ":")
			if p[0] == "auth" {
				if _, used := live[p[1]]; !used && !banned[p[1]] {
					clash := false
					for id, k := range live {
						if id != p[1] && strings.HasPrefix(k, p[2]+"/") {
							clash = true
						}
					}
					if clash {
						continue
					}
				}
			}
			out = append(out, op)
		}
		return out
	}
}

func runOpsCheck(prop, tier string, arg opsArg, ops []string, depth int, rule string) int {
	run := newRun(prop, tier, "model_checking")
	p := pool.New(0)
	st := bfsPool(run, p, "ops", arg, depth, 0, authFilter(arg.Init, ops))
	finishBfs(run, st, rule)
	run.Coverage["alphabet"] = ops
	run.Coverage["init"] = arg.Init
	if st.Depth >= depth {
		run.Coverage["bounded_by_depth"] = depth
	}
	return exitCode(run, st)
}

func init() {
	checks["C06"] = func(tier string) int {
		arg := opsArg{Name: "c06", Init: []string{"reg:G1:temp", "now:100"}, RestartCheck: true}
		ops := []string{
			"auth:1:kA:1000:G1",       // a1
			"auth:1:kA:2000:G1",       // a1': capacity differs
			"auth:1:kA:1000:G1:debt",  // a1*: differs in the debt field only
			"auth:1:kB:1000:G1",       // a1'': carries device 2's key
			"auth:1:kF:1000:G1",       // a1''': fresh key
			"auth:2:kB:1000:G1",       // a2
			"auth:1:kA:1000:G1:flip",  // one bit of the signature flipped
			"auth:1:kA:1000:G1:stale", // content altered after signing: carries the valid signature of a1
			"auth:1:kA:1000:temp", "auth:1:kA:1000:srv", "auth:1:kA:1000:G2",
			"auth:1:kA:2000:G2", // a conflict that is not signed by the GCA must not ban
			"rep:1:kA:now:500", "rep:2:kB:now:500", "rep:1:kB:now:500", "rep:1:kF:now:500",
			"rot", "restart",
		}
		depth := 4
		if tier == "thorough" {
			depth = 6
		}
		return runOpsCheck("C06", tier, arg, ops, depth, "BFS over histories of authorizations (valid, duplicate, conflicting in capacity / key / reusing another device's key, flipped bit, temp-key / server-key / foreign-GCA signatures), reports, rotation and restart on the real server through the JSON endpoint; every transition compared with the reference model (status code, device set, bans, slots, public-key index consistency); every distinct state additionally through /equipment, recent-reports, TCP sync, statistics, archive and a restart;restart differential")
	}
	checks["C07"] = func(tier string) int { return c07(tier) }
	checks["C04"] = func(tier string) int {
		arg := opsArg{Name: "c04", Init: []string{"reg:G1:temp", "auth:1:kA:1000:G1", "auth:2:kB:7:G1", "now:100"}, RestartCheck: true}
		ops := []string{
			"rep:1:kA:now:500", "rep:1:kA:now:600", "rep:2:kB:now:5", "rep:2:kB:now:10", "rep:1:kA:now-1:neg",
			"auth:3:kC:1000:G1", "auth:1:kX:1000:G1", "auth:2:kB:8:G1",
			"rot", "impact", "restart",
			"nowoff:3999", "nowoff:4000", "nowoff:6100", "nowoff:12000", "nowoff:100",
		}
		depth := 3
		if tier == "thorough" {
			depth = 5
		}
		return runOpsCheck("C04", tier, arg, ops, depth, "BFS over histories of reports (incl. banned slots and over-capacity), authorizations (new, conflicting = ban), rotations, impact rounds, clock moves that make a restart need 0/1/3 catch-up rotations, and restarts; at every distinct state: restart (must succeed, state = model incl. catch-up rotations, archived weeks byte-identical on disk and through the API), second restart (idempotent), public observables after restart")
	}
	checks["C03"] = func(tier string) int {
		arg := opsArg{Name: "c03", Init: []string{"reg:G1:temp", "auth:1:kA:1000:G1", "auth:2:kB:1000:G1", "now:0"}, RestartCheck: true}
		ops := []string{
			"rep:1:kA:now:500", "rep:1:kA:now:600", "rep:2:kB:now:700",
			"nowoff:1", "nowoff:2015", "nowoff:2016", "nowoff:2017", "nowoff:3200", "nowoff:3201", "nowoff:4031", "nowoff:6100",
			"tick", "rot", "impact", "restart",
			"auth:3:kC:1000:G1", "auth:1:kX:1000:G1",
			"get:0:neg", "get:off+0:neg", "get:off+4032", "get:7",
		}
		depth := 3
		if tier == "thorough" {
			depth = 4
		}
		return runOpsCheck("C03", tier, arg, ops, depth, "BFS over histories of reports at window edges (slots 0,1,2015,2016,2017,3200,3201,4031 relative to the offset), clock moves (incl. three weeks ahead), rotation-loop ticks (the real loop decides), forced rotations, impact rounds, restarts (with start-up catch-up), authorizations and bans, statistics requests with insert_false_negatives (random source answering 'always negate'), future and misaligned weeks; every distinct state: every archived week on disk and through the API equals the model (values, impact rates, contiguous offsets, signature over the independently encoded layout, byte-identical to its first appearance, also after a false-negatives request and after restart;restart), live weeks equal the model")
	}
}
