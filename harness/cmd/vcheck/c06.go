package main

// C06, C07 (sequential part), C04, C03: breadth-first search over operation
// histories on the real server (system "ops"), each with the alphabet its
// property quantifies over.

import (
	"encoding/json"
	"fmt"
	"math"
	"strings"

	"github.com/glowlabs-org/gca-backend/glow"
	"verifh/ev"

	"verifh/pool"
)

// authFilter keeps the search inside the property's domain: a
// non-conflicting authorization never hands a key that a live device already
// uses to a second id (the property is silent on that).
func authFilter(init []string, ops []string) func(hist []string) []string {
	return func(hist []string) []string {
		live := map[string]string{} // id -> key
		banned := map[string]bool{}
		registered := ""
		for _, op := range append(append([]string{}, init...), hist...) {
			p := strings.Split(op, ":")
			switch p[0] {
			case "reg":
				if registered == "" && p[2] == "temp" && len(p) == 3 {
					registered = p[1]
				}
			case "auth":
				if registered == "" || p[4] != registered || (len(p) > 5 && (p[5] == "flip" || p[5] == "stale")) || banned[p[1]] {
					continue
				}
				variant := p[2] + "/" + p[3]
				if len(p) > 5 {
					variant += "/" + p[5]
				}
				if k, ok := live[p[1]]; ok {
					if k != variant {
						delete(live, p[1])
						banned[p[1]] = true
					}
					continue
				}
				live[p[1]] = variant
			}
		}
		var out []string
		for _, op := range ops {
			p := strings.Split(op, ":")
			if p[0] == "auth" {
				if _, used := live[p[1]]; !used && !banned[p[1]] {
					clash := false
					for id, k := range live {
						if id != p[1] && strings.HasPrefix(k, p[2]+"/") {
							clash = true
						}
					}
					if clash {
						continue
					}
				}
			}
			out = append(out, op)
		}
		return out
	}
}

var c04GCA string

// edgeIDs renames the device ids of an alphabet: device "1" becomes short id 0 (the zero value of every
// id-typed variable, cache and map miss), device "3" the largest id, device "2" stays an ordinary one.
func edgeIDs(ops []string) []string {
	out := make([]string, len(ops))
	for i, op := range ops {
		p := strings.Split(op, ":")
		if p[0] == "auth" || p[0] == "rep" {
			switch p[1] {
			case "1":
				p[1] = "0"
			case "3":
				p[1] = "4294967295"
			}
		}
		out[i] = strings.Join(p, ":")
	}
	return out
}

func runOpsCheck(prop, tier string, arg opsArg, ops []string, depth int, rule string, extra ...func(run *ev.Run, p *pool.Pool) (evals int)) int {
	run := newRun(prop, tier, "model_checking")
	if prop != "C07" && prop != "C18" {
		arg.Init, ops = edgeIDs(arg.Init), edgeIDs(ops)
		run.Coverage["device_ids"] = "0 (zero value), 2, 4294967295"
	}
	p := pool.New(0)
	st := bfsPool(run, p, "ops", arg, depth, 0, authFilter(arg.Init, ops))
	for _, f := range extra {
		n := f(run, p)
		st.Transitions += n
	}
	finishBfs(run, st, rule)
	run.Coverage["alphabet"] = ops
	run.Coverage["init"] = arg.Init
	if st.Depth >= depth {
		run.Coverage["bounded_by_depth"] = depth
	}
	return exitCode(run, st)
}

func init() {
	checks["C06"] = func(tier string) int {
		// the clock stands in the second week of the live window: device 1 reports there (index 2100), device 2 in the first week (index 100)
		arg := opsArg{Name: "c06", Init: []string{"reg:G1:temp", "now:2100"}, RestartCheck: true}
		ops := []string{
			"auth:1:kA:1000:G1",       // a1
			"auth:1:kA:2000:G1",       // a1': capacity differs
			"auth:1:kA:1000:G1:debt",  // a1*: differs in the debt field only
			"auth:1:kA:1000:G1:resig", // a1 again under a second valid signature: a different authorization
			"auth:1:kB:1000:G1",       // a1'': carries device 2's key
			"auth:1:kF:1000:G1",       // a1''': fresh key
			"auth:2:kB:1000:G1",       // a2
			"auth:1:kA:1000:G1:flip",  // one bit of the signature flipped
			"auth:1:kA:1000:G1:stale", // content altered after signing: carries the valid signature of a1
			"auth:1:kA:1000:temp", "auth:1:kA:1000:srv", "auth:1:kA:1000:G2",
			"auth:1:kA:2000:G2", // a conflict that is not signed by the GCA must not ban
			"rep:1:kA:now:500", "rep:2:kB:now-2000:500", "rep:1:kB:now:500", "rep:1:kF:now-2000:500",
			"rot", "restart",
			"touch", // the equipment list, sync replies and server list are requested (and compared); between two touches anything remembered can go stale
		}
		depth := 4
		if tier == "thorough" {
			depth = 6
		}
		return runOpsCheck("C06", tier, arg, ops, depth, "BFS over histories of authorizations (valid, duplicate, conflicting in capacity / key / reusing another device's key, flipped bit, stale signature, temp-key / server-key / foreign-GCA signatures), reports, rotation and restart on the real server through the JSON endpoint; every transition compared with the reference model (status code, device set, bans, slots, public-key index consistency); every distinct state additionally through /equipment, recent-reports, TCP sync, statistics, archive and a restart;restart differential; plus, for every field of an authorization (and for +0/-0, subnormal, 1-ulp and off-globe values of latitude and longitude), base authorization, identical resubmission, and a validly signed second authorization differing in that field only", c06Fields)
	}
	checks["C07"] = func(tier string) int { return c07(tier) }
	checks["C04"] = func(tier string) int {
		// the GCA of this check has a public key that ends in a line-feed byte
		arg := opsArg{Name: "c04", Init: []string{"reg:G1:temp", "auth:1:kA:1000:G1", "auth:2:kB:7:G1", "now:100"}, RestartCheck: true}
		defer func() { c04GCA = "" }()
		c04GCA = "G-NL"
		ops := []string{
			"rep:1:kA:now:500", "rep:1:kA:now:600", "rep:2:kB:now:5", "rep:2:kB:now:10", "rep:1:kA:now-1:neg",
			"auth:3:kC:1000:G1", "auth:1:kX:1000:G1", "auth:2:kB:8:G1", "auth:2:kB:7:G1:resig",
			"rot", "impact", "restart",
			"nowoff:3999", "nowoff:4000", "nowoff:6100", "nowoff:12000", "nowoff:100",
		}
		depth := 3
		if tier == "thorough" {
			depth = 5
		}
		for i := range arg.Init {
			arg.Init[i] = strings.ReplaceAll(arg.Init[i], "G1", c04GCA)
		}
		for i := range ops {
			ops[i] = strings.ReplaceAll(ops[i], "G1", c04GCA)
		}
		return runOpsCheck("C04", tier, arg, ops, depth, "BFS over histories of reports (incl. banned slots and over-capacity), authorizations (new, conflicting = ban), rotations, impact rounds, clock moves that make a restart need 0/1/3 catch-up rotations, and restarts; at every distinct state: restart (must succeed, state = model incl. catch-up rotations, archived weeks byte-identical on disk and through the API), second restart (idempotent), public observables after restart")
	}
	checks["C03"] = func(tier string) int {
		arg := opsArg{Name: "c03", Init: []string{"reg:G1:temp", "auth:1:kA:1000:G1", "auth:2:kB:1000:G1", "now:0"}, RestartCheck: true}
		ops := []string{
			"rep:1:kA:now:500", "rep:1:kA:now:600", "rep:2:kB:now:700",
			"nowoff:1", "nowoff:2015", "nowoff:2016", "nowoff:2017", "nowoff:3200", "nowoff:3201", "nowoff:4031", "nowoff:6100",
			"tick", "rot", "impact", "restart",
			"auth:3:kC:1000:G1", "auth:1:kX:1000:G1",
			"get:0:neg", "get:off+0:neg", "get:off+4032", "get:7",
		}
		depth := 3
		if tier == "thorough" {
			depth = 4
		}
		return runOpsCheck("C03", tier, arg, ops, depth, "BFS over histories of reports at window edges (slots 0,1,2015,2016,2017,3200,3201,4031 relative to the offset), clock moves (incl. three weeks ahead), rotation-loop ticks (the real loop decides), forced rotations, impact rounds, restarts (with start-up catch-up), authorizations and bans, statistics requests with insert_false_negatives (random source answering 'always negate'), future and misaligned weeks; every distinct state: every archived week on disk and through the API equals the model (values, impact rates, contiguous offsets, signature over the independently encoded layout, byte-identical to its first appearance, also after a false-negatives request and after restart;restart), live weeks equal the model")
	}
}

// ---- single-field conflicts ----

type c06FieldJob struct {
	Field string `json:"field"`
}

var c06FieldNames = []string{"PublicKey", "Latitude+ulp", "Longitude+ulp", "Latitude+0/-0", "Longitude+0/-0", "Latitude-subnormal", "Capacity", "Debt", "Expiration", "Initialization", "ProtocolFee", "Capacity-high-bit", "Expiration-high-bit", "Latitude-off-globe", "Longitude-off-globe", "base-off-globe", "Capacity-max"}

func c06FieldRun(j c06FieldJob) *jobReport {
	rep := &jobReport{Reasons: map[string]int{}}
	w, err := newStdWorld("c06f")
	if err != nil {
		rep.fail("harness/setup", err.Error())
		return rep
	}
	poisoned := false
	defer func() {
		if poisoned {
			w.Abandon()
			return
		}
		if p := safely(func() { w.Close() }); p != "" {
			rep.fail("close-panic", firstLine(p))
		}
		w.Cleanup()
	}()
	base := authFor(20, key("k20"), 1000)
	other := base
	switch j.Field {
	case "PublicKey":
		other.PublicKey = key("k21").Pub
	case "Latitude+ulp":
		other.Latitude = math.Nextafter(base.Latitude, 100)
	case "Longitude+ulp":
		other.Longitude = math.Nextafter(base.Longitude, 100)
	case "Latitude+0/-0":
		base.Latitude, other.Latitude = 0, math.Copysign(0, -1)
	case "Longitude+0/-0":
		base.Longitude, other.Longitude = math.Copysign(0, -1), 0
	case "Latitude-subnormal":
		base.Latitude, other.Latitude = 0, math.SmallestNonzeroFloat64
	case "Capacity":
		other.Capacity++
	case "Debt":
		other.Debt++
	case "Expiration":
		other.Expiration++
	case "Initialization":
		other.Initialization++
	case "ProtocolFee":
		other.ProtocolFee++
	case "Capacity-high-bit":
		other.Capacity |= 1 << 63
	case "Expiration-high-bit":
		other.Expiration |= 1 << 31
	case "Latitude-off-globe":
		other.Latitude = 91.5 // finite, not on the globe: still an authorization the GCA signed
	case "Longitude-off-globe":
		other.Longitude = -181.5
	case "base-off-globe":
		base.Latitude, base.Longitude = -1e6, 1e300
		other = base
		other.Debt++
	case "Capacity-max":
		other.Capacity = 1<<64 - 1
	}
	step := func(name string, ea glow.EquipmentAuthorization, wantCode int, wantOut authOutcome) bool {
		var code int
		var out authOutcome
		if p := safely(func() { code, out = w.doAuthorize(w.signAuth(ea, w.GCA.Priv)) }); p != "" {
			rep.fail("panic/authorize/"+name, firstLine(p))
			poisoned = true
			return false
		}
		rep.Evals++
		if out != wantOut {
			rep.fail("harness/model-outcome", fmt.Sprint(name, out))
			return false
		}
		if code != wantCode {
			rep.fail("single-field-conflict/"+name+"/field="+j.Field, map[string]interface{}{"status": code, "expected": wantCode})
			return false
		}
		if sig, what := w.compareState(); sig != "" {
			rep.fail("single-field-conflict/"+name+"/field="+j.Field+"/"+sig, what)
			return false
		}
		return true
	}
	if !step("first", base, 200, authAdded) || !step("identical-resubmission", base, 200, authDuplicate) || !step("second-differs-in-one-field", other, 500, authConflictBan) {
		return rep
	}
	// banned for good: also the original is refused now, and after a restart
	if !step("original-after-ban", base, 500, authRefused) {
		return rep
	}
	if err := w.Restart(); err != nil {
		rep.fail("restart-fails/field="+j.Field, err.Error())
		poisoned = true
		return rep
	}
	if sig, what := w.compareState(); sig != "" {
		rep.fail("single-field-conflict/after-restart/field="+j.Field+"/"+sig, what)
	}
	rep.Reasons["field "+j.Field]++
	rep.Accepted++
	return rep
}

func c06Fields(run *ev.Run, p *pool.Pool) int {
	var jobs []interface{}
	for _, f := range c06FieldNames {
		jobs = append(jobs, c06FieldJob{f})
	}
	evals := 0
	for i, r := range p.Map("c06f", jobs, nil) {
		var rep jobReport
		if r.Err != "" || r.Panic != "" || r.Timeout || json.Unmarshal(r.Data, &rep) != nil {
			fmt.Println("HARNESS ERROR: c06 field job", i, r.Err, firstLine(r.Panic), r.Timeout)
			run.Count("harness_errors", 1)
			continue
		}
		evals += rep.Evals
		for _, v := range rep.Violations {
			if strings.HasPrefix(v.Sig, "harness/") {
				fmt.Println("HARNESS ERROR:", v.Sig, v.Detail)
				run.Count("harness_errors", 1)
				continue
			}
			run.Violation(v.Sig, map[string]interface{}{"job": jobs[i], "detail": v.Detail, "replay": mkReplay("c06f", jobs[i])})
		}
	}
	run.Coverage["single_field_conflicts"] = c06FieldNames
	return evals
}

func init() {
	pool.Register("c06f", func(data json.RawMessage) (interface{}, error) {
		var j c06FieldJob
		if err := json.Unmarshal(data, &j); err != nil {
			return nil, err
		}
		return c06FieldRun(j), nil
	})
}
