package main

// opsWorld: one real GCA server + the reference model, driven by a small
// textual operation language. It is the system under the breadth-first
// searches for C03, C04, C06, C07 and the crash enumeration of C05.
//
//   reg:<gca>:<signer>[:alt]         registration of key <gca> signed by <signer>; alt = key changed after signing
//   auth:<id>:<key>:<cap>:<signer>[:flip]   equipment authorization through the JSON endpoint
//   rep:<id>:<key>:<ts>:<power>      UDP report for absolute timeslot ts (ts may be "now+k" / "off+k")
//   now:<n> | adv:<k>                protocol clock
//   rot                              one rotation (what the rotation loop does when it decides to rotate)
//   tick                             fire the rotation loop's timer once (the loop decides itself)
//   impact                           one round of the impact-data job
//   restart                          Close + NewGCAServer on the same directory
//   get:<tso>[:neg]                  GET all-device-stats (tso may be "off+k"); neg = insert_false_negatives with every slot negated

import (
	"bytes"
	"encoding/json"
	"fmt"
	"math/big"
	"os"
	"path/filepath"
	"strconv"
	"strings"
	"time"

	"github.com/glowlabs-org/gca-backend/glow"
	"github.com/glowlabs-org/gca-backend/server"

	"verifh/shim/vmrand"
	"verifh/shim/vos"
	"verifh/shim/vtime"
)

type opsWorld struct {
	*srvWorld
	M        *srvModel
	Now      uint32
	Poisoned bool
	// archived weeks as first served / first written (C03 immutability)
	firstServed map[uint32]string
	Served      map[uint32][]byte
	lastArchive []byte
	Armed       string // injected failure for the next operation ("file:stage")
	Dirty       bool   // a state-changing operation has run since the last explicit "touch"
	LastTouch   string // digest of the model state at the last explicit "touch": what a cache filled then would hold
}

// extraCheck is a hook for scenario-specific oracles (C14 inspects the zip).
func (d *srvScenarioDef) extraCheck(w *opsWorld) *vio {
	if f := scenarioExtra[d.Name]; f != nil {
		return f(d, w)
	}
	return nil
}

var scenarioExtra = map[string]func(d *srvScenarioDef, w *opsWorld) *vio{}

func newOpsWorld(name string) (*opsWorld, error) {
	resetGlobals()
	sw, err := newServerWorld(name)
	if err != nil {
		return nil, err
	}
	return &opsWorld{srvWorld: sw, M: newSrvModel(sw.Temp.Pub), firstServed: map[uint32]string{}, Served: map[uint32][]byte{}}, nil
}

func (w *opsWorld) finish(res *bfsResult) {
	if w.Poisoned {
		w.Abandon()
		return
	}
	if p := safely(func() { w.Close() }); p != "" {
		res.fail("close-panic", p)
		w.Abandon()
		return
	}
	w.Cleanup()
}

func (w *opsWorld) signerPriv(name string) glow.PrivateKey {
	switch name {
	case "temp":
		return w.Temp.Priv
	case "srv":
		return w.Srv.Priv
	}
	return key(name).Priv
}

func (w *opsWorld) resolveTs(s string) (uint32, bool) {
	base := int64(0)
	rest := s
	switch {
	case strings.HasPrefix(s, "now"):
		base, rest = int64(w.Now), s[3:]
	case strings.HasPrefix(s, "off"):
		base, rest = int64(w.M.Offset), s[3:]
	}
	var k int64
	if rest != "" {
		v, err := strconv.ParseInt(rest, 10, 64)
		if err != nil {
			return 0, false
		}
		k = v
	}
	t := base + k
	if t < 0 || t >= 1<<32 {
		return 0, false
	}
	return uint32(t), true
}

// opResult is what one operation observably did.
type opResult struct {
	Obs     string // what the implementation answered
	Want    string // what the model predicts ("" = not predicted)
	Sig     string // violation signature if Obs != Want or another clause failed
	Detail  interface{}
	Skipped bool // operation not applicable in this state (e.g. negative timeslot)
}

func parsePower(s string) uint64 {
	switch s {
	case "neg":
		return 1<<63 + 5
	case "max63":
		return 1<<63 - 1
	}
	v, _ := strconv.ParseUint(s, 10, 64)
	return v
}

// apply executes one operation on the real server and the model.
func (w *opsWorld) apply(op string) (r opResult) {
	parts := strings.Split(op, ":")
	var panicked string
	if parts[0] == "tornkey" {
		// tornkey:<n> - the server is stopped, what is left of an interrupted first registration is an n-byte
		// gcaPubKey.dat, the server is started again (it must come up unregistered and be registrable for good)
		if w.M.Registered {
			r.Skipped = true
			return
		}
		n, _ := strconv.Atoi(parts[1])
		if err := w.Close(); err != nil {
			r.Sig, r.Obs, r.Want = "restart-fails", "close: "+err.Error(), "close succeeds"
			w.Poisoned = true
			return
		}
		must(os.WriteFile(filepath.Join(w.Dir, "gcaPubKey.dat"), bytes.Repeat([]byte{0xAB}, n), 0644))
		if err := w.start(); err != nil {
			r.Sig, r.Obs, r.Want = "restart-fails", "start with a "+parts[1]+"-byte key file: "+err.Error(), "start succeeds"
			w.Poisoned = true
			return
		}
		w.M.restartVolatile()
		w.followOffset(&r)
		return
	}
	if parts[0] == "touch" {
		// requests whose answers might be remembered by the server; their content is compared on the spot
		if sig, what := w.touch(w.M); sig != "" {
			r.Sig, r.Obs, r.Want = sig, what, "what the server holds"
		}
		w.Dirty = false
		w.LastTouch = fmt.Sprintf("%x", keccak([]byte(w.M.valueKey() + fmt.Sprint(len(w.M.Servers), len(w.M.Migrations))))[:6])
		return
	}
	if parts[0] == "fail" {
		// fail:<file>:<open|write> - the next operation's open / write of that file fails (EACCES / ENOSPC)
		w.Armed = parts[1] + ":" + parts[2]
		return
	}
	if w.Armed != "" {
		a := strings.Split(w.Armed, ":")
		vos.FailNext(a[0], a[1])
		armed := a[0]
		w.Armed = ""
		defer vos.ClearFaults()
		if parts[0] == "reg" && armed == "gcaPubKey.dat" && !w.M.Registered {
			// a registration that cannot be persisted must fail as a whole: status 500, nobody registered
			gca := key(parts[1])
			gr := server.GCARegistration{GCAKey: gca.Pub}
			gr.Signature = glow.Sign(refRegistrationSigningBytes(gca.Pub), w.signerPriv(parts[2]))
			wouldSucceed := refVerify(w.Temp.Pub, refRegistrationSigningBytes(gr.GCAKey), gr.Signature)
			body, _ := json.Marshal(gr)
			var code int
			if p := safely(func() { code, _ = w.httpDo("POST", "/api/v1/register-gca", body) }); p != "" {
				w.Poisoned = true
				r.Sig, r.Obs, r.Want = "panic/reg-with-failing-write", p, "no panic"
				return
			}
			r.Obs, r.Want = fmt.Sprint(code), "500"
			if wouldSucceed && r.Obs != r.Want {
				r.Sig = "register-status-with-failing-write"
			}
			return
		}
	}
	switch parts[0] {
	case "reg":
		gca := key(parts[1])
		gr := server.GCARegistration{GCAKey: gca.Pub}
		gr.Signature = glow.Sign(refRegistrationSigningBytes(gca.Pub), w.signerPriv(parts[2]))
		if len(parts) > 3 && parts[3] == "alt" {
			gr.GCAKey = key(parts[1] + "-altered").Pub
		}
		body, _ := json.Marshal(gr)
		var code int
		panicked = safely(func() { code, _ = w.httpDo("POST", "/api/v1/register-gca", body) })
		r.Obs = fmt.Sprint(code)
		if w.M.register(gr.GCAKey, gr.Signature) {
			r.Want = "200"
		} else {
			r.Want = "500"
		}
		r.Sig = "register-status"
	case "auth":
		id, _ := strconv.ParseUint(parts[1], 10, 32)
		capa, _ := strconv.ParseUint(parts[3], 10, 64)
		ea := authFor(uint32(id), key(parts[2]), capa)
		ea.Signature = glow.Sign(refAuthSigningBytes(ea), w.signerPriv(parts[4]))
		if len(parts) > 5 && parts[5] == "debt" {
			ea.Debt++ // differs from the plain variant in this single field only
			ea.Signature = glow.Sign(refAuthSigningBytes(ea), w.signerPriv(parts[4]))
		}
		if len(parts) > 5 && parts[5] == "resig" {
			// same content under a second valid signature (another nonce): not the identical authorization
			ea.Signature = altSign(refAuthSigningBytes(ea), w.signerPriv(parts[4]), 1)
		}
		if len(parts) > 5 && parts[5] == "flip" {
			ea.Signature[17] ^= 0x04
		}
		if len(parts) > 5 && parts[5] == "stale" {
			ea.ProtocolFee += 5 // altered after signing: the signature is the genuine one of the unaltered authorization
		}
		body, _ := json.Marshal(ea)
		var code int
		panicked = safely(func() { code, _ = w.httpDo("POST", "/api/v1/authorize-equipment", body) })
		r.Obs = fmt.Sprint(code)
		switch w.M.authorize(ea) {
		case authAdded, authDuplicate:
			r.Want = "200"
		default:
			r.Want = "500"
		}
		r.Sig = "authorize-status"
	case "rep":
		id, _ := strconv.ParseUint(parts[1], 10, 32)
		ts, ok := w.resolveTs(parts[3])
		if !ok {
			r.Skipped = true
			return
		}
		dg := signedReport(uint32(id), ts, parsePower(parts[4]), key(parts[2]).Priv)
		panicked = safely(func() { w.S.VerifInjectDatagram(dg) })
		w.M.datagram(dg, w.Now)
	case "now":
		n, _ := strconv.ParseUint(parts[1], 10, 32)
		w.Now = uint32(n)
		glow.SetCurrentTimeslot(w.Now)
	case "adv":
		k, _ := strconv.ParseUint(parts[1], 10, 32)
		w.Now += uint32(k)
		glow.SetCurrentTimeslot(w.Now)
	case "rot":
		panicked = safely(func() { w.S.VerifRotate() })
		w.M.rotate()
	case "tick":
		var fired, settled bool
		panicked = safely(func() { fired, settled = vtime.Fire(sc.ReportMigrationFrequency, true, 10*time.Second) })
		if !fired || !settled {
			r.Sig, r.Obs, r.Want = "harness/tick", fmt.Sprintf("fired=%v settled=%v", fired, settled), "fired and parked again"
			return
		}
		w.followOffset(&r)
	case "impact":
		before := w.S.VerifSnapshot()
		panicked = safely(func() { w.S.VerifImpactJob() })
		if panicked == "" {
			w.followImpact(before, &r)
		}
	case "restart":
		var err error
		panicked = safely(func() { err = w.Restart() })
		if panicked == "" && err != nil {
			r.Obs, r.Want, r.Sig = "start failed: "+err.Error(), "start succeeds", "restart-fails"
			w.Poisoned = true
			return
		}
		if panicked == "" {
			w.M.restartVolatile()
			w.followOffset(&r)
		}
	case "get":
		w.applyGet(parts, &r)
		return
	case "sauth":
		// sauth:<name>:<banned 0|1>:<httpPort>:<signer>
		as := server.AuthorizedServer{PublicKey: key("server-" + parts[1]).Pub, Banned: parts[2] == "1", Location: "127.0.0.1"}
		if len(parts) > 5 {
			as.Location = locationOfLen(parts[5])
		}
		port, _ := strconv.ParseUint(parts[3], 10, 16)
		as.HttpPort, as.TcpPort, as.UdpPort = uint16(port), uint16(port)+1, uint16(port)+2
		as.GCAAuthorization = glow.Sign(refServerSigningBytes(as), w.signerPriv(parts[4]))
		if len(parts) > 6 && parts[6] == "stale" {
			as.Banned = !as.Banned // altered after signing: carries the genuine signature of the unaltered entry
		}
		if len(parts) > 6 && parts[6] == "staletail" {
			as.Location = as.Location[:len(as.Location)-1] + "b" // last byte of the location altered after signing
		}
		if len(parts) > 6 && parts[6] == "staleport" {
			as.UdpPort += 7
		}
		body, _ := json.Marshal(as)
		var code int
		panicked = safely(func() { code, _ = w.httpDo("POST", "/api/v1/authorized-servers", body) })
		r.Obs = fmt.Sprint(code)
		if w.M.serverAuth(as) {
			r.Want = "200"
		} else {
			r.Want = "500"
		}
		r.Sig = "server-authorization-status"
	case "migr":
		// migr:<equipment key>:<new gca>:<outer signer>:<inner signer>
		em := server.EquipmentMigration{Equipment: key(parts[1]).Pub, NewGCA: key(parts[2]).Pub, NewShortID: 77}
		ns := server.AuthorizedServer{PublicKey: key("server-N1").Pub, Location: "127.0.0.1", HttpPort: 1, TcpPort: 2, UdpPort: 3}
		ns.GCAAuthorization = glow.Sign(refServerSigningBytes(ns), w.signerPriv(parts[4]))
		em.NewServers = []server.AuthorizedServer{ns}
		em.Signature = glow.Sign(refMigrationSigningBytes(em), w.signerPriv(parts[3]))
		if len(parts) > 5 && parts[5] == "stale" {
			em.NewShortID++ // altered after signing
		}
		if len(parts) > 5 && parts[5] == "staleserver" {
			em.NewServers[0].TcpPort += 9 // inner entry altered after both signatures were made
		}
		body, _ := json.Marshal(em)
		var code int
		panicked = safely(func() { code, _ = w.httpDo("POST", "/api/v1/equipment-migrate", body) })
		r.Obs = fmt.Sprint(code)
		if w.M.migrate(em) {
			r.Want = "200"
		} else {
			r.Want = "500"
		}
		r.Sig = "migration-status"
	case "migr0":
		// migr0:<equipment key>:<new gca>:<outer signer> - a migration order without new servers
		em := server.EquipmentMigration{Equipment: key(parts[1]).Pub, NewGCA: key(parts[2]).Pub, NewShortID: 77}
		em.Signature = glow.Sign(refMigrationSigningBytes(em), w.signerPriv(parts[3]))
		body, _ := json.Marshal(em)
		var code int
		panicked = safely(func() { code, _ = w.httpDo("POST", "/api/v1/equipment-migrate", body) })
		r.Obs = fmt.Sprint(code)
		if w.M.migrate(em) {
			r.Want = "200"
		} else {
			r.Want = "500"
		}
		r.Sig = "migration-status"
	case "nowoff":
		k, _ := strconv.ParseUint(parts[1], 10, 32)
		w.Now = w.M.Offset + uint32(k)
		glow.SetCurrentTimeslot(w.Now)
	default:
		r.Sig, r.Obs, r.Want = "harness/unknown-op", op, ""
		return
	}
	if panicked != "" {
		w.Poisoned = true
		r.Sig, r.Obs, r.Want = "panic/"+parts[0], panicked, "no panic"
		return
	}
	if r.Obs == r.Want {
		r.Sig = ""
	}
	return
}

// followOffset lets the model rotate as often as the implementation did
// (rotation timing is C20's business; the effects are checked here).
func (w *opsWorld) followOffset(r *opResult) {
	real := w.S.VerifSnapshot().ReportsOffset
	if real < w.M.Offset || (real-w.M.Offset)%mWeek != 0 || (real-w.M.Offset)/mWeek > 64 {
		r.Sig, r.Obs, r.Want = "rotation-offset", fmt.Sprintf("offset moved from %d to %d", w.M.Offset, real), "a whole number of weeks forward"
		return
	}
	for w.M.Offset < real {
		w.M.rotate()
	}
}

// followImpact checks that an impact-job round wrote, for every authorized
// device, exactly the slot of the current timeslot (when it lies in the
// window) and nothing else; the model adopts the written value.
func (w *opsWorld) followImpact(before server.VerifSnapshot, r *opResult) {
	after := w.S.VerifSnapshot()
	idx := int64(w.Now) - int64(w.M.Offset)
	for id := range w.M.Devices {
		bm := map[uint32]float64{}
		for _, e := range before.Impact[id] {
			bm[e.Index] = e.Rate
		}
		for _, e := range after.Impact[id] {
			if old, ok := bm[e.Index]; ok && old == e.Rate {
				delete(bm, e.Index)
				continue
			}
			if int64(e.Index) != idx {
				r.Sig, r.Obs, r.Want = "impact-placement", fmt.Sprintf("device %d: rate written at index %d", id, e.Index), fmt.Sprintf("only index %d (current timeslot)", idx)
				return
			}
			delete(bm, e.Index)
			if w.M.Impact[id] == nil {
				w.M.Impact[id] = map[uint32]float64{}
			}
			w.M.Impact[id][w.Now] = e.Rate
		}
		for i := range bm {
			r.Sig, r.Obs, r.Want = "impact-placement", fmt.Sprintf("device %d: rate at index %d disappeared", id, i), "unchanged"
			return
		}
	}
}

func (w *opsWorld) applyGet(parts []string, r *opResult) {
	tso, ok := w.resolveTs(parts[1])
	if !ok {
		r.Skipped = true
		return
	}
	neg := len(parts) > 2 && parts[2] == "neg"
	url := fmt.Sprintf("/api/v1/all-device-stats?timeslot_offset=%d", tso)
	if neg {
		url += "&insert_false_negatives=true"
		vmrand.SetIntn(func(n int) int { return 1 }) // "always negate"
		defer vmrand.SetIntn(nil)
	}
	var code int
	var body []byte
	if p := safely(func() { code, body = w.httpDo("GET", url, nil) }); p != "" {
		w.Poisoned = true
		r.Sig, r.Obs, r.Want = "panic/get", p, "no panic"
		return
	}
	// prediction
	switch {
	case tso%mWeek != 0:
		r.Want = "400"
	case tso < w.M.Offset:
		r.Want = "200"
	case tso == w.M.Offset || tso == w.M.Offset+mWeek:
		r.Want = "200"
	default:
		r.Want = "500"
	}
	r.Obs = fmt.Sprint(code)
	if r.Obs != r.Want {
		r.Sig = "stats-status"
		r.Detail = string(bytes.TrimSpace(body))
		return
	}
	if code != 200 || neg {
		return // the content of a false-negatives answer is deliberately falsified; only its after-effects matter
	}
	var st statsJSON
	if err := json.Unmarshal(body, &st); err != nil {
		r.Sig, r.Obs, r.Want = "stats-malformed", err.Error(), "JSON"
		return
	}
	var want map[glow.PublicKey]*weekDevice
	if tso < w.M.Offset {
		want = w.M.Archive[tso/mWeek].Devices
	} else {
		want = w.M.liveWeek(int((tso - w.M.Offset) / mWeek))
	}
	if s, wh := compareWeek(&st, want, tso, w.Srv.Pub); s != "" {
		r.Sig, r.Obs, r.Want = "stats-"+s, wh, "model"
		return
	}
	if tso < w.M.Offset {
		// identity of the record (devices in served order, values, rates, offset, signature), not of its JSON spelling
		rec := weekRecord{Offset: st.TimeslotOffset, Sig: st.Signature}
		for _, d := range st.Devices {
			var rd weekDevice
			rd.Key = d.PublicKey
			for i := 0; i < mWeek && i < len(d.PowerOutputs); i++ {
				rd.Power[i] = uint64(d.PowerOutputs[i])
				rd.Rate[i] = d.ImpactRates[i]
			}
			rec.Devices = append(rec.Devices, rd)
		}
		body = keccak(refWeekBytes(rec))
		if old, ok := w.Served[tso]; ok && !bytes.Equal(old, body) {
			r.Sig, r.Obs, r.Want = "archived-week-changed", fmt.Sprintf("week %d served differently than before", tso), "identical bytes"
			return
		}
		w.Served[tso] = body
	}
}

// compareState compares the real snapshot with the model (value level).
func (w *opsWorld) compareState() (string, string) {
	snap := w.S.VerifSnapshot()
	got, err := snapValueKey(snap)
	if err != nil {
		return "state/inconsistent", err.Error()
	}
	want := w.M.valueKey()
	if got != want {
		return "state/differs", firstDiff(got, want)
	}
	if len(snap.Servers) != len(w.M.Servers) {
		return "state/server-list", fmt.Sprintf("server list has %d entries, model %d", len(snap.Servers), len(w.M.Servers))
	}
	for i := range snap.Servers {
		if !bytes.Equal(refServerBytes(snap.Servers[i]), refServerBytes(w.M.Servers[i])) {
			return "state/server-list", fmt.Sprintf("server list entry %d differs from the model (banned %v/%v, http port %d/%d)", i, snap.Servers[i].Banned, w.M.Servers[i].Banned, snap.Servers[i].HttpPort, w.M.Servers[i].HttpPort)
		}
	}
	if len(snap.Migrations) != len(w.M.Migrations) {
		return "state/migrations", fmt.Sprintf("%d migration orders stored, model %d", len(snap.Migrations), len(w.M.Migrations))
	}
	for k, mg := range w.M.Migrations {
		if got, ok := snap.Migrations[k]; !ok || !bytes.Equal(refMigrationBody(got), refMigrationBody(mg)) || got.Signature != mg.Signature {
			return "state/migrations", fmt.Sprintf("migration order for %x differs from the model", k[:4])
		}
	}
	if snap.GCAAvailable != w.M.Registered || (w.M.Registered && snap.GCAPubKey != w.M.GCA) {
		return "state/gca-key", fmt.Sprintf("registered=%v key=%x, model %v %x", snap.GCAAvailable, snap.GCAPubKey[:4], w.M.Registered, w.M.GCA[:4])
	}
	return "", ""
}

// checkArchive verifies every archived week through the API and on disk:
// contiguous offsets from 0, model values, signature, and byte identity with
// what was served/written the first time in this history.
func (w *opsWorld) checkArchive() (string, string) {
	disk, err := readFileMaybe(w.Dir, "allDeviceStats.dat")
	if err != nil {
		return "archive/file", err.Error()
	}
	weeks, err := refParseWeeks(disk)
	if err != nil {
		return "archive/file-malformed", err.Error()
	}
	if len(weeks) != len(w.M.Archive) {
		return "archive/count", fmt.Sprintf("file holds %d weeks, model %d", len(weeks), len(w.M.Archive))
	}
	for i, wk := range weeks {
		if wk.Offset != uint32(i)*mWeek {
			return "archive/not-contiguous", fmt.Sprintf("archived week %d has offset %d", i, wk.Offset)
		}
		if !refVerify(w.Srv.Pub, refWeekSigningBytes(wk), wk.Sig) {
			return "archive/signature", fmt.Sprintf("archived week %d on disk does not verify", i)
		}
		want := w.M.Archive[i].Devices
		if len(wk.Devices) != len(want) {
			return "archive/devices", fmt.Sprintf("archived week %d has %d devices, model %d", i, len(wk.Devices), len(want))
		}
		for _, d := range wk.Devices {
			md, ok := want[d.Key]
			if !ok {
				return "archive/devices", fmt.Sprintf("archived week %d lists unexpected device %x", i, d.Key[:4])
			}
			if d.Power != md.Power {
				return "archive/values", fmt.Sprintf("archived week %d device %x: power values differ from the model", i, d.Key[:4])
			}
			if d.Rate != md.Rate {
				return "archive/rates", fmt.Sprintf("archived week %d device %x: impact rates differ from the model", i, d.Key[:4])
			}
		}
		h := fmt.Sprintf("%x", keccak(refWeekBytes(wk)))
		if old, ok := w.firstServed[wk.Offset]; ok && old != h {
			return "archive/changed-on-disk", fmt.Sprintf("archived week %d changed on disk", i)
		}
		w.firstServed[wk.Offset] = h
		// through the API, plain and after a false-negatives request
		for pass := 0; pass < 2; pass++ {
			r := opResult{}
			w.applyGet([]string{"get", fmt.Sprint(wk.Offset)}, &r)
			if r.Sig != "" {
				return "archive/" + r.Sig, fmt.Sprintf("week %d pass %d: %s (want %s)", i, pass, r.Obs, r.Want)
			}
			// served record must be the record on disk
			code, st, _ := w.stats(fmt.Sprint(wk.Offset))
			if code != 200 {
				return "archive/status", fmt.Sprint(code)
			}
			if st.Signature != wk.Sig {
				return "archive/served-differs-from-disk", fmt.Sprintf("week %d", i)
			}
			if pass == 0 {
				r2 := opResult{}
				w.applyGet([]string{"get", fmt.Sprint(wk.Offset), "neg"}, &r2)
				if r2.Sig != "" {
					return "archive/" + r2.Sig, r2.Obs
				}
			}
		}
	}
	return "", ""
}

func (w *opsWorld) checkServerList() (string, string) {
	code, body := w.httpDo("GET", "/api/v1/authorized-servers", nil)
	if code != 200 {
		return "servers/status", fmt.Sprint(code)
	}
	var r server.AuthorizedServersResponse
	if err := json.Unmarshal(body, &r); err != nil {
		return "servers/malformed", err.Error()
	}
	if len(r.AuthorizedServers) != len(w.M.Servers) {
		return "servers/count", fmt.Sprintf("list has %d entries, model %d", len(r.AuthorizedServers), len(w.M.Servers))
	}
	for i, s := range r.AuthorizedServers {
		if !bytes.Equal(refServerBytes(s), refServerBytes(w.M.Servers[i])) {
			return "servers/entry", fmt.Sprintf("entry %d differs from the model", i)
		}
	}
	return "", ""
}

// locationOfLen returns a server location of the given length whose use as an
// HTTP host fails fast without any name resolution.
func locationOfLen(n string) string {
	l, _ := strconv.Atoi(n)
	switch {
	case l == 0:
		return ""
	case l == 1:
		return "1"
	case l < 10:
		return "127.0.0.1"[:9][:l]
	}
	return "127.0.0.1/" + strings.Repeat("a", l-10)
}

// checkRequests asks the statistics endpoint for every held week through every spelling of a number the
// query-string grammar allows or nearly allows (values beyond 32 bits that alias a held week, signs, blanks,
// other bases, fractions). Oracle, from an arbitrary-precision reading of the request: only a plain decimal
// number that is aligned and not in the future may be answered, and the answer is labelled with that number.
func (w *opsWorld) checkRequests() (string, string) {
	held := []uint32{w.M.Offset, w.M.Offset + mWeek}
	for i := range w.M.Archive {
		held = append(held, uint32(i)*mWeek)
	}
	two32 := new(big.Int).Lsh(big.NewInt(1), 32)
	two64 := new(big.Int).Lsh(big.NewInt(1), 64)
	var qs []string
	for _, h := range held {
		hb := new(big.Int).SetUint64(uint64(h))
		for _, k := range []int64{1, 2, 5} {
			qs = append(qs, new(big.Int).Add(hb, new(big.Int).Mul(two32, big.NewInt(k))).String())
		}
		qs = append(qs, new(big.Int).Add(hb, two64).String(), fmt.Sprintf("-%d", h), fmt.Sprintf("%%2B%d", h), fmt.Sprintf("%%20%d", h),
			fmt.Sprintf("0x%x", h), fmt.Sprintf("%d.0", h), fmt.Sprintf("%de0", h), fmt.Sprintf("0%d", h), fmt.Sprintf("%d_", h), fmt.Sprintf("%d&timeslot_offset=7", h))
	}
	qs = append(qs, "", "abc", "4294965248", "4294967295", fmt.Sprint(w.M.Offset+2*mWeek), fmt.Sprint(w.M.Offset+1), fmt.Sprint(w.M.Offset+mWeek-1))
	for _, q := range qs {
		var code int
		var body []byte
		if p := safely(func() { code, body = w.httpDo("GET", "/api/v1/all-device-stats?timeslot_offset="+q, nil) }); p != "" {
			w.Poisoned = true
			return "requests/panic", p
		}
		// reference reading of the first value of the parameter
		first := strings.SplitN(q, "&", 2)[0]
		first = strings.NewReplacer("%2B", "+", "%20", " ").Replace(first)
		n, plain := new(big.Int), first != ""
		for _, c := range first {
			if c < '0' || c > '9' {
				plain = false
			}
		}
		if plain {
			n.SetString(first, 10)
		}
		ok := plain && n.Cmp(two32) < 0
		var v uint32
		if ok {
			v = uint32(n.Uint64())
			ok = v%mWeek == 0 && v <= w.M.Offset+mWeek
		}
		if !ok {
			if code == 200 {
				return "requests/served-what-must-be-refused", fmt.Sprintf("timeslot_offset=%q answered 200", q)
			}
			continue
		}
		if code != 200 {
			return "requests/refused-held-week", fmt.Sprintf("timeslot_offset=%q -> %d", q, code)
		}
		var st statsJSON
		if err := json.Unmarshal(body, &st); err != nil {
			return "requests/malformed", err.Error()
		}
		if st.TimeslotOffset != v {
			return "requests/label", fmt.Sprintf("timeslot_offset=%q labelled %d", q, st.TimeslotOffset)
		}
	}
	return "", ""
}
