package main

// C19 - rate limiter: never more than limit per window, never starves.
// (a) explicit-state search over sequential histories under virtual time;
// (b) every interleaving of concurrent callers and a clock thread, the clock
//     read being a scheduling point, judged on the instants each call read.

import (
	"encoding/json"
	"fmt"
	"sort"
	"strings"
	"time"

	"github.com/glowlabs-org/gca-backend/glow"

	"verifh/ev"
	"verifh/pool"
	"verifh/shim/vsync"
	"verifh/shim/vtime"
	"verifh/vsched"
)

const c19Rate = 1000 * time.Nanosecond

// rlJudge applies the property with interval arithmetic: each call is known
// to have taken effect at some instant in [B, A] (clock before the call, clock
// after it). Only certain violations count:
//   - over-limit: limit+1 admitted calls whose intervals all fit into less than
//     one window (max A - min B < rate);
//   - starved: a refused call for which fewer than limit admitted calls could
//     possibly lie in its preceding window (A_j > B-rate and B_j <= A).
//
// For sequential histories B == A and the judgement is exact.
func rlJudge(limit int, rate time.Duration, calls []rlCall) (sig, what string) {
	for i, c := range calls {
		if c.OK {
			n := 0
			for _, d := range calls {
				if d.OK && d.B >= c.B && d.A < c.B+rate {
					n++
				}
			}
			if n > limit {
				return "over-limit", fmt.Sprintf("%d admitted calls certainly lie within one window starting at %d (limit %d)", n, c.B, limit)
			}
			continue
		}
		n := 0
		for k, d := range calls {
			if k != i && d.OK && d.A > c.B-rate && d.B <= c.A {
				n++
			}
		}
		if n < limit {
			return "starved", fmt.Sprintf("call %d in [%d,%d] refused although at most %d of %d admissions can lie in its preceding window", i, c.B, c.A, n, limit)
		}
	}
	return "", ""
}

type rlCall struct {
	B  time.Duration `json:"before"`
	A  time.Duration `json:"after"`
	OK bool          `json:"ok"`
}

func c19SeqExec(run *ev.Run, limit int, hist []string) (string, bool) {
	vtime.SetOffset(0)
	r := glow.NewRateLimiter(limit, c19Rate)
	var calls []rlCall
	for _, op := range hist {
		switch op {
		case "allow":
			at := vtime.Offset()
			calls = append(calls, rlCall{at, at, r.Allow()})
		case "+0":
		case "+half":
			vtime.Advance(c19Rate / 2)
		case "+rate-1":
			vtime.Advance(c19Rate - 1)
		case "+rate":
			vtime.Advance(c19Rate)
		case "+rate+1":
			vtime.Advance(c19Rate + 1)
		case "+1":
			vtime.Advance(1)
		case "+.4":
			vtime.Advance(c19Rate * 2 / 5)
		case "+.6":
			vtime.Advance(c19Rate * 3 / 5)
		}
	}
	if sig, what := rlJudge(limit, c19Rate, calls); sig != "" {
		run.Violation("seq/"+sig, map[string]interface{}{"limit": limit, "rate_ns": int64(c19Rate), "history": hist, "calls": calls, "what": what})
		return "BAD:" + strings.Join(hist, " "), false
	}
	// canonical: admissions still inside the window relative to now, plus remembered count
	now := vtime.Offset()
	var rel []string
	for _, c := range calls {
		if c.OK && c.A > now-c19Rate-1 {
			rel = append(rel, fmt.Sprint(int64(now-c.A)))
		}
	}
	// the implementation's own fields are part of the key (clock-independent rendering): a cursor or flag the model
	// knows nothing about must keep two histories apart
	return fmt.Sprintf("%v|%d|%s", rel, r.VerifLen(), hiddenState(r, vtime.Now())), true
}

// ---- concurrent scenario ----

type c19Arg struct {
	Limit   int     `json:"limit"`
	Callers int     `json:"callers"`
	Ticks   []int64 `json:"ticks"` // clock thread advances
}

func init() {
	scenarios["c19"] = func(raw json.RawMessage) *scenario {
		var a c19Arg
		json.Unmarshal(raw, &a)
		return &scenario{Name: "c19", Run: func(choose vsched.Chooser) *execOutcome {
			vtime.SetOffset(0)
			vsync.ResetRegistry()
			r := glow.NewRateLimiter(a.Limit, c19Rate)
			calls := make([]rlCall, a.Callers)
			finished := make([]bool, a.Callers)
			var names []string
			var bodies []func()
			for i := 0; i < a.Callers; i++ {
				i := i
				names = append(names, fmt.Sprintf("caller%d", i))
				bodies = append(bodies, func() {
					b := vtime.Offset()
					ok := r.Allow()
					calls[i] = rlCall{b, vtime.Offset(), ok}
					finished[i] = true
				})
			}
			names = append(names, "clock")
			bodies = append(bodies, func() {
				for _, d := range a.Ticks {
					vsched.Yield("tick", nil)
					vtime.Advance(time.Duration(d))
				}
			})
			res := vsched.Run(names, bodies, choose, vsched.Options{PointOnNow: true})
			out := &execOutcome{Res: res}
			for _, p := range res.Panics {
				out.Violations = append(out.Violations, vio{"conc/panic", p})
			}
			if res.Deadlock {
				out.Violations = append(out.Violations, vio{"conc/deadlock", res.DeadlockInfo})
			}
			if vsync.HeldMutexes() != 0 {
				out.Violations = append(out.Violations, vio{"conc/lock-held-at-end", res.LockTrace})
			}
			all := true
			for _, f := range finished {
				all = all && f
			}
			if all && !res.Deadlock && len(res.Panics) == 0 {
				if sig, what := rlJudge(a.Limit, c19Rate, calls); sig != "" {
					out.Violations = append(out.Violations, vio{"conc/" + sig, map[string]interface{}{"arg": a, "calls": calls, "what": what}})
				}
			}
			var oc []string
			for _, c := range calls {
				oc = append(oc, fmt.Sprintf("[%d,%d]:%v", c.B, c.A, c.OK))
			}
			out.Outcome = strings.Join(oc, ",")
			out.Collided = strings.Count(strings.Join(res.LockTrace, " "), ":L:") >= 2
			return out
		}}
	}
}

func init() {
	checks["C19"] = func(tier string) int {
		run := newRun("C19", tier, "model_checking")
		// (a) sequential
		depth := 8
		if tier == "thorough" {
			depth = 10
		}
		ops := []string{"allow", "+1", "+half", "+rate-1", "+rate", "+rate+1"}
		states, trans := 0, 0
		for _, limit := range []int{1, 2, 3} {
			limit := limit
			st := bfsInProc(run, depth, 3000000, func([]string) []string { return ops }, func(h []string) (string, bool) {
				return c19SeqExec(run, limit, h)
			})
			states += st.States
			trans += st.Transitions
			if st.Capped {
				run.NotExhaustive("sequential state cap hit")
			}
			run.Sample(map[string]interface{}{"part": "sequential", "limit": limit, "states": st.States, "transitions": st.Transitions, "depth": st.MaxDepth})
		}
		// (a') long histories over a coarse clock alphabet (0.4, 0.6 and just over one window): fill, replace the
		// expired oldest, go idle for a whole window, refill spread out, probe - deep enough for limits 2 and 3
		deepOps := []string{"allow", "+.4", "+.6", "+rate+1"}
		for _, lim := range []struct{ limit, depth int }{{2, 13}, {3, 16}} {
			lim := lim
			d := lim.depth
			if tier == "thorough" {
				d += 3
			}
			st := bfsInProc(run, d, 3000000, func([]string) []string { return deepOps }, func(h []string) (string, bool) {
				return c19SeqExec(run, lim.limit, h)
			})
			states += st.States
			trans += st.Transitions
			if st.Capped {
				run.NotExhaustive("sequential (coarse clock) state cap hit")
			}
			run.Sample(map[string]interface{}{"part": "sequential, coarse clock", "limit": lim.limit, "states": st.States, "transitions": st.Transitions, "depth": st.MaxDepth})
		}
		// (b) concurrent: all interleavings
		p := pool.New(0)
		var args []c19Arg
		for _, limit := range []int{1, 2} {
			args = append(args, c19Arg{limit, 3, []int64{int64(c19Rate) - 1, 1}})
			args = append(args, c19Arg{limit, 3, []int64{int64(c19Rate), 1}})
		}
		if tier == "thorough" {
			for _, limit := range []int{1, 2, 3} {
				args = append(args, c19Arg{limit, 4, []int64{int64(c19Rate) - 1, 1, int64(c19Rate)}})
			}
		}
		execs := 0
		outcomes := map[string]bool{}
		for _, a := range args {
			st, bad := exploreSharded("c19", a, -1, 0, 2, p)
			execs += st.Executions
			for o := range st.Outcomes {
				outcomes[fmt.Sprint(a.Limit, "/", o)] = true
			}
			if st.HarnessErr != "" {
				fmt.Println("HARNESS ERROR:", st.HarnessErr)
				return 3
			}
			for _, b := range bad {
				fmt.Println("HARNESS ERROR (worker):", b.Err, b.Panic, b.Timeout)
				return 3
			}
			for _, v := range st.Violations {
				run.Violation(v.Sig, map[string]interface{}{"scenario": "c19", "arg": a, "schedule": v.Schedule, "trace": v.Trace, "detail": v.Detail, "replay": mkReplay("explore1", exploreOneJob{Scenario: "c19", Arg: mustJSON(a), Schedule: v.Schedule})})
			}
			if st.StepCapHit > 0 || st.CapHit {
				run.NotExhaustive("execution cap hit in concurrent part")
			}
			var oc []string
			for o := range st.Outcomes {
				oc = append(oc, o)
			}
			sort.Strings(oc)
			if len(oc) > 4 {
				oc = oc[:4]
			}
			run.Sample(map[string]interface{}{"part": "concurrent", "arg": a, "executions": st.Executions, "distinct_outcomes": len(st.Outcomes), "some_outcomes": oc})
		}
		// (c) free-running race pass of the same bodies
		raceReports := racePass("c19")
		run.Coverage["race_pass"] = raceReports
		run.Coverage["states"] = states
		run.Coverage["transitions"] = trans
		run.Coverage["traces_validated_against_impl"] = trans + execs
		run.Coverage["schedules"] = execs
		run.Coverage["distinct_outcomes_concurrent"] = len(outcomes)
		run.Coverage["evaluations"] = trans + execs
		run.Coverage["distinct_nontrivial"] = states + len(outcomes)
		run.Coverage["rule"] = "sequential: BFS over histories of Allow/advance(1ns,rate/2,rate-1,rate,rate+1) for limit 1..3, distinct = canonical (admissions inside the window relative to now, remembered count); concurrent: every interleaving (unbounded preemptions) of 3-4 callers and a clock thread with lock acquisition, clock read and clock tick as scheduling points, distinct = per-caller ([clock before, clock after], admitted); judged with interval arithmetic so that only certain violations count"
		run.Assumption("the 64-caller wall-clock formulation is replaced by virtual time: the before/after instants of each call are exact virtual clock values; starvation by the real scheduler is out of scope")
		return run.Finish()
	}
}
