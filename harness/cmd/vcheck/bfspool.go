package main

// E2 over worker processes: level-synchronous breadth-first search where a
// state is the shortest operation list reaching it and a transition is a
// fresh real instance + replay of the list + one more operation, executed in
// a worker process. Results are merged in job order, so counts are
// reproducible.

import (
	"encoding/json"
	"fmt"
	"strings"

	"verifh/ev"
	"verifh/pool"
)

type bfsJob struct {
	Sys  string          `json:"sys"`
	Arg  json.RawMessage `json:"arg"`
	Hist []string        `json:"hist"`
	Deep bool            `json:"deep,omitempty"` // second pass: one representative per distinct state, expensive observations on
}

type bfsResult struct {
	Key        string         `json:"key"`
	Expand     bool           `json:"expand"`
	Violations []vio          `json:"violations,omitempty"`
	Outcome    string         `json:"outcome,omitempty"` // observable class for non-vacuity counting
	Extra      map[string]int `json:"extra,omitempty"`
}

func (r *bfsResult) fail(sig string, detail interface{}) {
	r.Violations = append(r.Violations, vio{sig, detail})
}

// a bfsSystem executes one history on a fresh instance.
type bfsSystem func(arg json.RawMessage, hist []string, deep bool) *bfsResult

var bfsSystems = map[string]bfsSystem{}

func init() {
	pool.Register("bfs", func(data json.RawMessage) (interface{}, error) {
		var j bfsJob
		if err := json.Unmarshal(data, &j); err != nil {
			return nil, err
		}
		sys := bfsSystems[j.Sys]
		if sys == nil {
			return nil, fmt.Errorf("unknown system %q", j.Sys)
		}
		return sys(j.Arg, j.Hist, j.Deep), nil
	})
}

type bfsPoolStats struct {
	States, Transitions, Depth int
	Outcomes                   map[string]int
	Capped                     bool
	HarnessErrors              int
	DeepChecked                int
	Reps                       [][]string // shortest history of every distinct state
}

// bfsPool runs the search. ops returns the operations enabled after hist.
func bfsPool(run *ev.Run, p *pool.Pool, sys string, arg interface{}, maxDepth, stateCap int, ops func(hist []string) []string) bfsPoolStats {
	raw, _ := json.Marshal(arg)
	st := bfsPoolStats{Outcomes: map[string]int{}}
	p.AbortOnTimeout = true // transitions take milliseconds; one that runs into the 120 s limit ends the search
	seen := map[string]struct{}{}
	// initial state
	res0 := p.Map("bfs", []interface{}{bfsJob{Sys: sys, Arg: raw}}, nil)
	r0, ok := decodeBfs(run, sys, nil, res0[0], &st, bfsJob{Sys: sys, Arg: raw})
	if !ok {
		return st
	}
	seen[r0.Key] = struct{}{}
	st.Reps = append(st.Reps, nil)
	frontier := [][]string{nil}
	for depth := 0; depth < maxDepth && len(frontier) > 0; depth++ {
		var jobs []interface{}
		var hists [][]string
		for _, h := range frontier {
			for _, op := range ops(h) {
				nh := append(append(make([]string, 0, len(h)+1), h...), op)
				hists = append(hists, nh)
				jobs = append(jobs, bfsJob{Sys: sys, Arg: raw, Hist: nh})
			}
		}
		results := p.Map("bfs", jobs, nil)
		var next [][]string
		for i, pr := range results {
			st.Transitions++
			r, ok := decodeBfs(run, sys, hists[i], pr, &st, jobs[i].(bfsJob))
			if !ok {
				continue
			}
			if r.Outcome != "" {
				st.Outcomes[r.Outcome]++
			}
			for k, v := range r.Extra {
				run.Count(k, int64(v))
			}
			if _, dup := seen[r.Key]; dup {
				continue
			}
			seen[r.Key] = struct{}{}
			st.Reps = append(st.Reps, hists[i])
			if len(seen) <= 4 || len(seen)%97 == 1 {
				run.Sample(strings.Join(hists[i], " ; "))
			}
			if r.Expand {
				next = append(next, hists[i])
			}
		}
		st.Depth = depth + 1
		frontier = next
		if stateCap > 0 && len(seen) >= stateCap && len(frontier) > 0 && depth+1 < maxDepth {
			st.Capped = true
			break
		}
	}
	if len(frontier) > 0 && st.Depth >= maxDepth {
		// depth bound reached with unexplored successors
		st.Capped = st.Capped || false
	}
	st.States = len(seen)
	// Second pass: the expensive public-observable comparison once per distinct state.
	var jobs []interface{}
	for _, h := range st.Reps {
		jobs = append(jobs, bfsJob{Sys: sys, Arg: raw, Hist: h, Deep: true})
	}
	for i, pr := range p.Map("bfs", jobs, nil) {
		if _, ok := decodeBfs(run, sys, st.Reps[i], pr, &st, jobs[i].(bfsJob)); ok {
			st.DeepChecked++
		}
	}
	return st
}

func decodeBfs(run *ev.Run, sys string, hist []string, pr pool.Result, st *bfsPoolStats, job ...bfsJob) (*bfsResult, bool) {
	hs := strings.Join(hist, " ; ")
	var rp interface{}
	if len(job) > 0 {
		rp = mkReplay("bfs", job[0])
	}
	if pr.Timeout {
		if strings.Contains(pr.Dump, "vsync.(*Mutex).Lock") {
			run.Violation("wedged/"+sys, map[string]interface{}{"history": hist, "dump": tailStr(pr.Dump, 6000)})
		} else if site, g, ok := spinWitness(pr.Dump); ok {
			run.Violation("operation-does-not-return/"+site, map[string]interface{}{"history": hist, "goroutine": tailStr(g, 3000)})
		} else {
			run.NotExhaustive("a transition timed out without a lock-wait witness (inconclusive): " + hs)
		}
		return nil, false
	}
	if pr.Panic != "" {
		run.Violation("panic/bfs/"+firstLine(pr.Panic), map[string]interface{}{"history": hist, "panic": tailStr(pr.Panic, 6000), "replay": rp})
		return nil, false
	}
	if strings.HasPrefix(pr.Err, "skipped:") {
		st.Capped = true
		run.NotExhaustive("search ended early: " + pr.Err)
		return nil, false
	}
	if pr.Err == "worker died" {
		if sig, ok := processDeath(pr.Dump); ok {
			run.Violation(sig, map[string]interface{}{"history": hist, "stderr": headStr(pr.Dump, 6000), "replay": rp})
			return nil, false
		}
	}
	if pr.Err != "" {
		fmt.Printf("HARNESS ERROR (%s) history [%s]: %s\n%s\n", sys, hs, pr.Err, tailStr(pr.Dump, 2000))
		st.HarnessErrors++
		run.Count("harness_errors", 1)
		run.NotExhaustive("harness error")
		return nil, false
	}
	var r bfsResult
	if err := json.Unmarshal(pr.Data, &r); err != nil {
		st.HarnessErrors++
		run.Count("harness_errors", 1)
		return nil, false
	}
	for _, v := range r.Violations {
		if strings.HasPrefix(v.Sig, "harness/") {
			fmt.Printf("HARNESS ERROR (%s) history [%s]: %v\n", sys, hs, v.Detail)
			st.HarnessErrors++
			run.Count("harness_errors", 1)
			run.NotExhaustive("harness error")
			continue
		}
		run.Violation(v.Sig, map[string]interface{}{"system": sys, "history": hist, "detail": v.Detail, "replay": rp})
	}
	return &r, true
}
