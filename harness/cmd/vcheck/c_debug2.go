package main

import (
	"encoding/json"
	"fmt"
	"os"
)

func init() {
	checks["debugops"] = func(tier string) int {
		var h []string
		json.Unmarshal([]byte(os.Getenv("HIST")), &h)
		var init []string
		json.Unmarshal([]byte(os.Getenv("INIT")), &init)
		arg, _ := json.Marshal(opsArg{Name: "dbg", Init: init, RestartCheck: true})
		res := opsExec(arg, h, true)
		b, _ := json.MarshalIndent(res, "", " ")
		fmt.Println(string(b))
		return 0
	}
}

func init() {
	checks["debug08"] = func(tier string) int {
		var j c08Job
		json.Unmarshal([]byte(os.Getenv("JOB")), &j)
		rep := c08Run(j)
		b, _ := json.MarshalIndent(rep, "", " ")
		fmt.Println(string(b))
		return 0
	}
}
