package main

// C17 - server lists and GCA migration follow the GCA's signatures; bans are
// monotone. Server side: BFS over server-authorization posts on the real
// server (system "ops"). Client side: BFS over sync replies delivered to a
// real client through the scripted network, with restarts, against a client
// model.

import (
	"bytes"
	"encoding/binary"
	"encoding/json"
	"fmt"
	"net"
	"os"
	"path/filepath"
	"sort"
	"strings"

	"github.com/glowlabs-org/gca-backend/client"
	"github.com/glowlabs-org/gca-backend/glow"
	"github.com/glowlabs-org/gca-backend/server"

	"verifh/pool"
	"verifh/shim/vrand"
)

type cliModel struct {
	GCA     string // key name
	ID      uint32
	Servers map[glow.PublicKey]client.GCAServer
}

func entryOf(s server.AuthorizedServer) client.GCAServer {
	return client.GCAServer{Banned: s.Banned, Location: s.Location, HttpPort: s.HttpPort, TcpPort: s.TcpPort, UdpPort: s.UdpPort}
}

func (m *cliModel) key() string {
	var ks []string
	for k, s := range m.Servers {
		ks = append(ks, fmt.Sprintf("%x:%v:%s:%d", k[:3], s.Banned, s.Location, s.HttpPort))
	}
	sort.Strings(ks)
	return fmt.Sprintf("gca=%s id=%d %v", m.GCA, m.ID, ks)
}

// c17Reply builds the reply variant as sent by the server named by signer.
type c17Variant struct {
	List   []server.AuthorizedServer
	Mig    *server.EquipmentMigration
	DevKey glow.PublicKey
}

func c17Variants(dev glow.PublicKey) map[string]func(cur string) c17Variant {
	srv := func(name string, banned bool, port uint16, gca string) server.AuthorizedServer {
		n := map[string]int{"S0": 10, "S1": 1, "S2": 2, "S3": 3, "N1": 7, "N2": 8}[name]
		return signedServer(name, banned, fmt.Sprintf("10.0.0.%d", n), port, key(gca).Priv)
	}
	mig := func(equip glow.PublicKey, outer, inner string) func(string) c17Variant {
		return func(cur string) c17Variant {
			em := server.EquipmentMigration{Equipment: equip, NewGCA: key("G3").Pub, NewShortID: 77}
			em.NewServers = []server.AuthorizedServer{srv("N1", false, 7000, inner)}
			o := outer
			if o == "cur" {
				o = cur
			}
			em.Signature = glow.Sign(refMigrationSigningBytes(em), key(o).Priv)
			return c17Variant{List: em.NewServers, Mig: &em, DevKey: dev}
		}
	}
	list := func(f func(cur string) []server.AuthorizedServer) func(string) c17Variant {
		return func(cur string) c17Variant { return c17Variant{List: f(cur), DevKey: dev} }
	}
	return map[string]func(string) c17Variant{
		"L1": list(func(c string) []server.AuthorizedServer { return []server.AuthorizedServer{srv("S1", false, 7000, c)} }),
		"L12": list(func(c string) []server.AuthorizedServer {
			return []server.AuthorizedServer{srv("S1", false, 7000, c), srv("S2", false, 7000, c)}
		}),
		"L1b": list(func(c string) []server.AuthorizedServer { return []server.AuthorizedServer{srv("S1", true, 7000, c)} }),
		"L1p": list(func(c string) []server.AuthorizedServer { return []server.AuthorizedServer{srv("S1", false, 7100, c)} }),
		"L0b": list(func(c string) []server.AuthorizedServer { return []server.AuthorizedServer{srv("S0", true, 7000, c)} }),
		"Lbad": list(func(c string) []server.AuthorizedServer {
			return []server.AuthorizedServer{srv("S3", false, 7000, "G2")}
		}),
		"Lmix": list(func(c string) []server.AuthorizedServer {
			return []server.AuthorizedServer{srv("S2", false, 7000, c), srv("S3", false, 7000, "G2")}
		}),
		// the same key twice in one reply: a genuine entry followed by a forged ban (unsigned, other location) ...
		"Ldupforged": list(func(c string) []server.AuthorizedServer {
			f := srv("S1", true, 7300, c)
			f.Location = "203.0.113.66"
			f.GCAAuthorization = glow.Signature{}
			return []server.AuthorizedServer{srv("S1", false, 7000, c), f}
		}),
		// ... and followed by a genuine ban (must take effect)
		"Ldupgenuine": list(func(c string) []server.AuthorizedServer {
			return []server.AuthorizedServer{srv("S1", false, 7000, c), srv("S1", true, 7000, c)}
		}),
		// our own contacted server listed twice, second time forged as banned
		"Ldup0forged": list(func(c string) []server.AuthorizedServer {
			f := srv("S0", true, 7000, c)
			f.GCAAuthorization[3] ^= 1
			return []server.AuthorizedServer{srv("S0", false, 7000, c), f}
		}),
		// a genuine ban followed by the genuine older authorization of the same key: the ban must survive, whether or
		// not the client knew the server before this reply
		"Ldupbanfirst": list(func(c string) []server.AuthorizedServer {
			return []server.AuthorizedServer{srv("S2", true, 7000, c), srv("S2", false, 7000, c)}
		}),
		// the future new server N1 as an ordinary entry signed by the CURRENT GCA: accepted now, and the very same bytes
		// must not pass later as "signed by the new GCA" inside a migration order (variant Minner)
		"LN1": list(func(c string) []server.AuthorizedServer { return []server.AuthorizedServer{srv("N1", false, 7000, c)} }),
		"M":   mig(dev, "cur", "G3"),
		// a migration order whose (fully signed) list names one server three times: authorization, ban, and a second server
		"Mdup": func(cur string) c17Variant {
			em := server.EquipmentMigration{Equipment: dev, NewGCA: key("G3").Pub, NewShortID: 77}
			em.NewServers = []server.AuthorizedServer{srv("N1", false, 7000, "G3"), srv("N1", true, 7000, "G3"), srv("N2", false, 7000, "G3")}
			em.Signature = glow.Sign(refMigrationSigningBytes(em), key(cur).Priv)
			return c17Variant{List: em.NewServers, Mig: &em, DevKey: dev}
		},
		"Mouter": mig(dev, "G2", "G3"),
		"Minner": mig(dev, "cur", "cur-inner"),
		"Mother": mig(key("kOther").Pub, "cur", "G3"),
	}
}

func allScripted() map[string]scriptedServer {
	out := map[string]scriptedServer{}
	for name, n := range map[string]int{"S0": 10, "S1": 1, "S2": 2, "S3": 3, "N1": 7, "N2": 8} {
		out[name] = scriptedServer{Name: name, Key: key("server-" + name), Addr: fmt.Sprintf("10.0.0.%d", n), Port: 7000}
	}
	return out
}

func c17CliExec(raw json.RawMessage, hist []string, deep bool) *bfsResult {
	res := &bfsResult{Expand: true}
	resetGlobals()
	scriptClientRandomness()
	hub := newHub()
	dev := key("kDev")
	servers := allScripted()
	s0 := servers["S0"]
	cfg := cliConfig{Key: dev, ShortID: 4294967295, GCA: key("G1").Pub, HistoryOffset: 3,
		Servers: map[glow.PublicKey]client.GCAServer{s0.Key.Pub: s0.entry()}}
	w, err := newClientWorld(cfg)
	if err != nil {
		res.fail("harness/setup", err.Error())
		return res
	}
	poisoned := false
	defer func() {
		if poisoned {
			w.Abandon()
			return
		}
		if p := safely(func() { w.Close() }); p != "" {
			res.fail("close-panic", p)
		}
		w.Cleanup()
	}()
	m := &cliModel{GCA: "G1", ID: 4294967295, Servers: map[glow.PublicKey]client.GCAServer{s0.Key.Pub: s0.entry()}}
	variants := c17Variants(dev.Pub)
	var lastDialed glow.PublicKey // the server contacted last
	var current string            // reply variant for this round
	var roundGCA string           // the client's GCA when the round starts
	// every scripted server answers with the current variant, signed with its own key
	for _, s := range servers {
		s := s
		for _, port := range []uint16{7000, 7100} {
			addr := fmt.Sprintf("%s:%d", s.Addr, port+1)
			hub.TCP[addr] = func() (net.Conn, error) {
				lastDialed = s.Key.Pub
				return &lazyConn{handler: func(req []byte) []byte {
					cur := roundGCA
					vf := variants[current]
					fix := cur
					v := vf(fix)
					if current == "Minner" {
						// inner signature by the OLD (current) GCA instead of the new one
						em := *v.Mig
						em.NewServers = []server.AuthorizedServer{signedServer("N1", false, "10.0.0.7", 7000, key(cur).Priv)}
						em.Signature = glow.Sign(refMigrationSigningBytes(em), key(cur).Priv)
						v = c17Variant{List: em.NewServers, Mig: &em, DevKey: v.DevKey}
					}
					r := refReply{DevKey: v.DevKey, Timestamp: nowUnix(), Servers: v.List}
					if v.Mig != nil {
						r.NewGCA, r.NewID, r.MigSig = v.Mig.NewGCA, v.Mig.NewShortID, v.Mig.Signature
						if current == "Mother" {
							r.DevKey = dev.Pub // reply is bound to us, the order inside is for someone else
						}
					}
					return r.encode(s.Key.Priv)
				}}, nil
			}
		}
	}
	vrand.SetInt(func(max int64) int64 { return 0 })
	last := "initial"
	for i, op := range hist {
		last = op
		isLast := i == len(hist)-1
		if op == "restart" {
			before := w.C.VerifState()
			if err := w.Restart(); err != nil {
				res.fail("client-restart-fails", err.Error())
				poisoned = true
				res.Expand = false
				return res
			}
			after := w.C.VerifState()
			if isLast && (before.GCAPubKey != after.GCAPubKey || before.ShortID != after.ShortID || fmt.Sprint(sortedServers(before.Servers)) != fmt.Sprint(sortedServers(after.Servers))) {
				res.fail("restart-changes-identity", map[string]interface{}{"history": hist})
				res.Expand = false
			}
			continue
		}
		current = op
		roundGCA = m.GCA
		// model
		v := variants[op](m.GCA)
		if op == "Minner" {
			v.List = []server.AuthorizedServer{signedServer("N1", false, "10.0.0.7", 7000, key(m.GCA).Priv)}
		}
		live := 0
		for _, s := range m.Servers {
			if !s.Banned {
				live++
			}
		}
		valid := live > 0
		verifyKey := key(m.GCA).Pub
		if v.Mig != nil {
			em := *v.Mig
			if op == "Minner" {
				em.NewServers = v.List
				em.Signature = glow.Sign(refMigrationSigningBytes(em), key(m.GCA).Priv)
			}
			if em.Equipment != dev.Pub || !refVerify(key(m.GCA).Pub, refMigrationSigningBytes(em), em.Signature) {
				valid = false
			}
			verifyKey = em.NewGCA
		}
		for _, s := range v.List {
			if !refVerify(verifyKey, refServerSigningBytes(s), s.GCAAuthorization) {
				valid = false
			}
		}
		if valid {
			if v.Mig != nil && "G3" != m.GCA {
				m.GCA, m.ID = "G3", v.Mig.NewShortID
				m.Servers = map[glow.PublicKey]client.GCAServer{}
			}
			for _, s := range v.List {
				if _, ok := m.Servers[s.PublicKey]; !ok || s.Banned {
					m.Servers[s.PublicKey] = entryOf(s)
				}
			}
		}
		primaryBefore := w.C.VerifState().PrimaryServer
		ok, p, hung := w.syncRound(0)
		if p != "" || hung {
			poisoned = true
			res.fail("panic-or-hang/sync-round/"+op, map[string]interface{}{"history": hist, "panic": firstLine(p), "hung": hung})
			res.Expand = false
			return res
		}
		// a round may make the server it has just talked to the primary (even if that server then reports its own
		// ban); picking any OTHER server that the adopted map says is banned is selecting a known-banned server
		if stp := w.C.VerifState(); p == "" && !hung && stp.PrimaryServer != primaryBefore && stp.Servers[stp.PrimaryServer].Banned && stp.PrimaryServer != lastDialed {
			res.fail("banned-server-selected-as-primary/"+op, map[string]interface{}{"history": hist})
			res.Expand = false
		}
		if isLast && ok != valid {
			res.fail("round-result/"+op, map[string]interface{}{"history": hist, "round_ok": ok, "model_expects": valid})
			res.Expand = false
		}
	}
	st := w.C.VerifState()
	got := &cliModel{GCA: "?", ID: st.ShortID, Servers: st.Servers}
	for _, g := range []string{"G1", "G2", "G3"} {
		if key(g).Pub == st.GCAPubKey {
			got.GCA = g
		}
	}
	res.Key = m.key()
	res.Outcome = fmt.Sprintf("gca=%s servers=%d", m.GCA, len(m.Servers))
	if got.key() != m.key() {
		res.fail("client-state-differs/after-"+last, map[string]interface{}{"history": hist, "client": got.key(), "model": m.key()})
		res.Expand = false
		return res
	}
	// what is on disk is exactly what was adopted
	gk, _ := os.ReadFile(filepath.Join(w.Dir, client.GCAPubKeyFile))
	ib, _ := os.ReadFile(filepath.Join(w.Dir, client.ShortIDFile))
	sb, _ := os.ReadFile(filepath.Join(w.Dir, client.GCAServerMapFile))
	disk, derr := client.UntrustedDeserializeGCAServerMap(sb)
	if !bytes.Equal(gk, st.GCAPubKey[:]) || len(ib) != 4 || binary.LittleEndian.Uint32(ib) != st.ShortID || derr != nil || fmt.Sprint(sortedServers(disk)) != fmt.Sprint(sortedServers(st.Servers)) {
		res.fail("disk-differs-from-adopted-state/after-"+last, map[string]interface{}{"history": hist})
		res.Expand = false
	}
	if !w.C.VerifTryLock() {
		res.fail("lock-held/after-"+last, hist)
		poisoned = true
		res.Expand = false
	}
	return res
}

func sortedServers(m map[glow.PublicKey]client.GCAServer) []string {
	var out []string
	for k, s := range m {
		out = append(out, fmt.Sprintf("%x:%+v", k[:4], s))
	}
	sort.Strings(out)
	return out
}

func init() {
	bfsSystems["c17cli"] = c17CliExec
	checks["C17"] = func(tier string) int {
		run := newRun("C17", tier, "model_checking")
		p := pool.New(0)
		// server side
		arg := opsArg{Name: "c17", Init: []string{"reg:G1:temp", "now:100", "auth:0:kA:1000:G1"}, RestartCheck: false} // one device, so that sync replies (which carry the list) are requested after every step
		sops := []string{
			"sauth:S1:0:1:G1", "sauth:S1:0:4:G1", "sauth:S1:1:1:G1", "sauth:S1:1:4:G1", "sauth:S2:0:1:G1", "sauth:S2:1:1:G1",
			"sauth:S1:0:1:G2", "sauth:S1:1:1:temp", "sauth:S3:0:1:srv",
			"sauth:S1:0:1:G1:9:stale", "sauth:S2:0:1:G1:9:staleport",
			"touch",
			"sauth:S3:0:1:G1:255", "sauth:S3:0:1:G1:256", "sauth:S3:0:1:G1:300:staletail", // longest location the wire format carries; one byte more; an over-long one whose tail was altered after signing
		}
		depth := 4
		if tier == "thorough" {
			depth = 7
		}
		st1 := bfsPool(run, p, "ops", arg, depth, 0, func([]string) []string { return sops })
		// client side
		cops := []string{"L1", "L12", "L1b", "L1p", "L0b", "Lbad", "Lmix", "Ldupforged", "Ldupgenuine", "Ldup0forged", "Ldupbanfirst", "LN1", "M", "Mdup", "Mouter", "Minner", "Mother", "restart"}
		cdepth := 4
		if tier == "thorough" {
			cdepth = 6
		}
		st2 := bfsPool(run, p, "c17cli", struct{}{}, cdepth, 0, func([]string) []string { return cops })
		st := bfsPoolStats{States: st1.States + st2.States, Transitions: st1.Transitions + st2.Transitions, Depth: st1.Depth, Outcomes: st2.Outcomes, HarnessErrors: st1.HarnessErrors + st2.HarnessErrors, DeepChecked: st1.DeepChecked + st2.DeepChecked, Capped: st1.Capped || st2.Capped}
		for k, v := range st1.Outcomes {
			st.Outcomes[k] += v
		}
		finishBfs(run, st, "server side: BFS over server-authorization posts (new, changed ports, ban, un-ban attempt, second server, foreign-GCA / temp-key / server-key signatures) on the real server, GET /authorized-servers compared with the model at every distinct state; client side: BFS over sync rounds of a real client against scripted authorized servers answering with list and migration variants (valid, entry signed by a foreign GCA, mixed valid/invalid, outer signature by another GCA, inner signature by the old GCA, order for another device) and client restarts; client state and its three files compared with the client model after every history")
		run.Coverage["server_side"] = map[string]int{"states": st1.States, "transitions": st1.Transitions, "depth": st1.Depth}
		run.Coverage["client_side"] = map[string]int{"states": st2.States, "transitions": st2.Transitions, "depth": st2.Depth}
		run.Coverage["alphabet_server"] = sops
		run.Coverage["alphabet_client"] = cops
		return exitCode(run, st)
	}
}

var _ = strings.Join
