package main

import (
	"bytes"
	"encoding/json"
	"fmt"
	"io"
	"net/http"
	"net/http/httptest"
	"os"
	"path/filepath"
	"sync/atomic"
	"time"

	"github.com/glowlabs-org/gca-backend/glow"
	"github.com/glowlabs-org/gca-backend/server"

	"verifh/shim/vsync"
	"verifh/shim/vtime"
)

var dirCounter atomic.Int64

func scratchRoot() string {
	r := os.Getenv("VERIF_SCRATCH")
	if r == "" {
		r = filepath.Join(os.TempDir(), fmt.Sprintf("verif-scratch-%d", os.Getpid()))
	}
	os.MkdirAll(r, 0755)
	return r
}

func freshDir(prefix string) string {
	d := filepath.Join(scratchRoot(), fmt.Sprintf("%s-%d", prefix, dirCounter.Add(1)))
	os.RemoveAll(d)
	os.MkdirAll(d, 0755)
	return d
}

// srvWorld is one real GCAServer on its own directory with deterministic keys.
type srvWorld struct {
	Dir  string
	S    *server.GCAServer
	Temp keyPair
	Srv  keyPair
	open bool
}

var sc = server.VerifConsts()

// prepareServerDir writes what a technician installs before first start,
// plus a deterministic server key file.
func prepareServerDir(dir string, name string, withServerKeys bool) (temp, srv keyPair) {
	temp = key(name + "/temp")
	srv = key(name + "/server")
	os.MkdirAll(filepath.Join(dir, "watttime_data"), 0755)
	must(os.WriteFile(filepath.Join(dir, "gcaTempPubKey.dat"), temp.Pub[:], 0644))
	must(os.WriteFile(filepath.Join(dir, "watttime_data", "username"), []byte("hi"), 0644))
	must(os.WriteFile(filepath.Join(dir, "watttime_data", "password"), []byte("ih"), 0644))
	if withServerKeys {
		var data [96]byte
		copy(data[:32], srv.Pub[:])
		copy(data[32:], srv.Priv[:])
		must(os.WriteFile(filepath.Join(dir, "server.keys"), data[:], 0644))
	}
	return
}

func must(err error) {
	if err != nil {
		panic(err)
	}
}

// waitServerParked is the quiescence barrier after start-up: the four
// background loops of a test-mode server are parked on virtual timers.
func waitServerParked(n int) error {
	for _, d := range []time.Duration{sc.ReportMigrationFrequency, sc.WattTimeFrequency, sc.WattTimeWeekFrequency} {
		if !vtime.WaitPending(d, n, 10*time.Second) {
			return fmt.Errorf("background loop with period %v did not park", d)
		}
	}
	return nil
}

var liveServers int

func newServerWorld(name string) (*srvWorld, error) {
	dir := freshDir("srv")
	w := &srvWorld{Dir: dir}
	w.Temp, w.Srv = prepareServerDir(dir, name, true)
	return w, w.start()
}

func (w *srvWorld) start() error {
	s, err := server.NewGCAServer(w.Dir)
	if err != nil {
		return err
	}
	w.S = s
	w.open = true
	liveServers++
	return waitServerParked(liveServers)
}

// Close shuts the server down (running its own invariant check first).
func (w *srvWorld) Close() (err error) {
	if !w.open {
		return nil
	}
	w.open = false
	liveServers--
	err = w.S.Close()
	vtime.ReleaseSleeps()
	return err
}

// Abandon forgets a server that cannot be closed (panicked under its lock).
func (w *srvWorld) Abandon() {
	if w.open {
		w.open = false
		liveServers--
	}
}

func (w *srvWorld) Restart() error {
	if err := w.Close(); err != nil {
		return fmt.Errorf("close: %v", err)
	}
	return w.start()
}

func (w *srvWorld) Cleanup() {
	os.RemoveAll(w.Dir)
	if liveServers == 0 {
		vsync.ResetRegistry()
	}
}

// httpDo routes a request through the server's own mux synchronously.
func (w *srvWorld) httpDo(method, target string, body []byte) (int, []byte) {
	var rd io.Reader
	if body != nil {
		rd = bytes.NewReader(body)
	}
	req := httptest.NewRequest(method, target, rd)
	if body != nil {
		req.Header.Set("Content-Type", "application/json")
	}
	rec := httptest.NewRecorder()
	w.S.VerifServeHTTP(rec, req)
	return rec.Code, rec.Body.Bytes()
}

func (w *srvWorld) register(gca keyPair, signer glow.PrivateKey) int {
	gr := server.GCARegistration{GCAKey: gca.Pub}
	gr.Signature = glow.Sign(gr.SigningBytes(), signer)
	b, _ := json.Marshal(gr)
	code, _ := w.httpDo(http.MethodPost, "/api/v1/register-gca", b)
	return code
}

func (w *srvWorld) authorize(ea glow.EquipmentAuthorization, signer glow.PrivateKey) int {
	ea.Signature = glow.Sign(ea.SigningBytes(), signer)
	b, _ := json.Marshal(ea)
	code, _ := w.httpDo(http.MethodPost, "/api/v1/authorize-equipment", b)
	return code
}

func signedReport(id, ts uint32, power uint64, priv glow.PrivateKey) []byte {
	r := glow.EquipmentReport{ShortID: id, Timeslot: ts, PowerOutput: power}
	r.Signature = glow.Sign(r.SigningBytes(), priv)
	return r.Serialize()
}
