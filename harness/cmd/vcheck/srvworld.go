package main

import (
	"bytes"
	"encoding/json"
	"fmt"
	"io"
	"net"
	"net/http"
	"net/http/httptest"
	"os"
	"path/filepath"
	"strings"
	"sync"
	"sync/atomic"
	"time"

	"github.com/glowlabs-org/gca-backend/glow"
	"github.com/glowlabs-org/gca-backend/server"

	"verifh/pool"
	"verifh/shim/vmrand"
	"verifh/shim/vnet"
	"verifh/shim/vos"
	"verifh/shim/vrand"
	"verifh/shim/vsync"
	"verifh/shim/vtime"
)

var dirCounter atomic.Int64

func scratchRoot() string {
	r := os.Getenv("VERIF_SCRATCH")
	if r == "" {
		r = filepath.Join(os.TempDir(), fmt.Sprintf("verif-scratch-%d", os.Getpid()))
	}
	os.MkdirAll(r, 0755)
	return r
}

func freshDir(prefix string) string {
	d := filepath.Join(scratchRoot(), fmt.Sprintf("%s-%d", prefix, dirCounter.Add(1)))
	os.RemoveAll(d)
	os.MkdirAll(d, 0755)
	return d
}

// srvWorld is one real GCAServer on its own directory with deterministic keys.
type srvWorld struct {
	Dir  string
	S    *server.GCAServer
	Temp keyPair
	Srv  keyPair
	open bool
	// most response bytes written by one handler while a server mutex was held (meaningful in sequential use only)
	HeldWrite   int
	HeldWriteAt string
}

var sc = server.VerifConsts()

// prepareServerDir writes what a technician installs before first start,
// plus a deterministic server key file.
func prepareServerDir(dir string, name string, withServerKeys bool) (temp, srv keyPair) {
	temp = key(name + "/temp")
	srv = key(name + "/server")
	os.MkdirAll(filepath.Join(dir, "watttime_data"), 0755)
	must(os.WriteFile(filepath.Join(dir, "gcaTempPubKey.dat"), temp.Pub[:], 0644))
	must(os.WriteFile(filepath.Join(dir, "watttime_data", "username"), []byte("hi"), 0644))
	must(os.WriteFile(filepath.Join(dir, "watttime_data", "password"), []byte("ih"), 0644))
	if withServerKeys {
		var data [96]byte
		copy(data[:32], srv.Pub[:])
		copy(data[32:], srv.Priv[:])
		must(os.WriteFile(filepath.Join(dir, "server.keys"), data[:], 0644))
	}
	return
}

func must(err error) {
	if err != nil {
		panic(err)
	}
}

// serverLoopPeriods are the sleep periods of the background loops of a
// test-mode server.
func serverLoopPeriods() []time.Duration {
	return []time.Duration{sc.ReportMigrationFrequency, sc.WattTimeFrequency, sc.WattTimeWeekFrequency}
}

func pendingCounts() []int {
	var out []int
	for _, d := range serverLoopPeriods() {
		out = append(out, vtime.CountPending(d))
	}
	return out
}

// waitServerParked is the quiescence barrier after start-up: each background
// loop of the new server has parked on a virtual timer (one more pending
// entry per period than before the start).
func waitServerParked(before []int) error {
	if vtime.Real() {
		return nil
	}
	for i, d := range serverLoopPeriods() {
		if !vtime.WaitPending(d, before[i]+1, 10*time.Second) {
			return fmt.Errorf("background loop with period %v did not park", d)
		}
	}
	return nil
}

var liveServers int

// resetGlobals puts every process-global seam into its initial state; every
// job starts with it so that jobs are independent of worker history.
func resetGlobals() {
	glow.SetCurrentTimeslot(0)
	vtime.SetOffset(0)
	vtime.SetOnNow(nil)
	vos.SetObserver(nil)
	vos.ResetSteps()
	vos.SetPageTear(false, nil)
	vos.ClearFaults()
	vnet.SetDialer(nil)
	vrand.SetInt(nil)
	vrand.SetRead(nil)
	vmrand.SetIntn(nil)
}

func newServerWorld(name string) (*srvWorld, error) {
	dir := freshDir("srv")
	w := &srvWorld{Dir: dir}
	w.Temp, w.Srv = prepareServerDir(dir, name, true)
	return w, w.start()
}

func (w *srvWorld) start() error {
	before := pendingCounts()
	s, err := server.NewGCAServer(w.Dir)
	if err != nil {
		return err
	}
	w.S = s
	w.open = true
	liveServers++
	return waitServerParked(before)
}

// Close shuts the server down (running its own invariant check first).
func (w *srvWorld) Close() (err error) {
	if !w.open {
		return nil
	}
	w.open = false
	liveServers--
	err = w.S.Close()
	vtime.ReleaseSleeps()
	return err
}

// Abandon forgets a server that cannot be closed (panicked under its lock).
func (w *srvWorld) Abandon() {
	pool.RequestRecycle()
	if w.open {
		w.open = false
		liveServers--
	}
}

func (w *srvWorld) Restart() error {
	if err := w.Close(); err != nil {
		return fmt.Errorf("close: %v", err)
	}
	return w.start()
}

func (w *srvWorld) Cleanup() {
	os.RemoveAll(w.Dir)
	if liveServers == 0 {
		vsync.ResetRegistry()
	}
}

// httpDo routes a request through the server's own mux synchronously.
func (w *srvWorld) httpDo(method, target string, body []byte) (int, []byte) {
	var rd io.Reader
	if body != nil {
		rd = bytes.NewReader(body)
	}
	req := httptest.NewRequest(method, target, rd)
	if body != nil {
		req.Header.Set("Content-Type", "application/json")
	}
	rec := httptest.NewRecorder()
	pw := &probingWriter{ResponseRecorder: rec, w: w}
	w.S.VerifServeHTTP(pw, req)
	heldWriteMu.Lock()
	if pw.held > w.HeldWrite {
		w.HeldWrite, w.HeldWriteAt = pw.held, method+" "+target
	}
	heldWriteMu.Unlock()
	return rec.Code, rec.Body.Bytes()
}

var heldWriteMu sync.Mutex

// probingWriter counts the response bytes a handler writes while a server mutex is held. net/http buffers 4 KiB
// per response; anything beyond that goes to the socket inside Write and blocks for as long as the client does
// not read - with the mutex held, that wedges every other request and the shutdown.
type probingWriter struct {
	*httptest.ResponseRecorder
	w    *srvWorld
	held int
}

func (p *probingWriter) Write(b []byte) (int, error) {
	if mu, smu := p.w.S.VerifTryLocks(); !mu || !smu {
		p.held += len(b)
	}
	return p.ResponseRecorder.Write(b)
}

// heldWriteViolation reports a response of more than the HTTP server's buffer written under a mutex.
func (w *srvWorld) heldWriteViolation() (string, string) {
	if w.HeldWrite > 4096 {
		return "response-written-while-holding-a-server-mutex", fmt.Sprintf("%s: %d bytes of the response were written while a server mutex was held (the HTTP server buffers 4096; a client that does not read blocks the handler inside Write)", w.HeldWriteAt, w.HeldWrite)
	}
	return "", ""
}

func (w *srvWorld) register(gca keyPair, signer glow.PrivateKey) int {
	gr := server.GCARegistration{GCAKey: gca.Pub}
	gr.Signature = glow.Sign(gr.SigningBytes(), signer)
	b, _ := json.Marshal(gr)
	code, _ := w.httpDo(http.MethodPost, "/api/v1/register-gca", b)
	return code
}

func (w *srvWorld) authorize(ea glow.EquipmentAuthorization, signer glow.PrivateKey) int {
	ea.Signature = glow.Sign(ea.SigningBytes(), signer)
	b, _ := json.Marshal(ea)
	code, _ := w.httpDo(http.MethodPost, "/api/v1/authorize-equipment", b)
	return code
}

func signedReport(id, ts uint32, power uint64, priv glow.PrivateKey) []byte {
	r := glow.EquipmentReport{ShortID: id, Timeslot: ts, PowerOutput: power}
	r.Signature = glow.Sign(r.SigningBytes(), priv)
	return r.Serialize()
}

// ---- public observables ----

// safely runs f and converts a panic into an error string.
func safely(f func()) (panicked string) {
	defer func() {
		if r := recover(); r != nil {
			buf := make([]byte, 8192)
			n := runtimeStack(buf)
			panicked = fmt.Sprintf("%v\n%s", r, buf[:n])
		}
	}()
	f()
	return ""
}

// syncRaw performs one TCP sync request against the real handler over an
// in-memory connection and returns the raw reply bytes.
func (w *srvWorld) syncRaw(req []byte) (reply []byte, panicked string) {
	c := &memConn{r: bytes.NewReader(req)}
	panicked = safely(func() { w.S.VerifSyncConn(c) })
	return c.w.Bytes(), panicked
}

// memConn is an in-memory connection: the request is preloaded, everything
// the handler writes is collected. It lets the real handler run on the
// calling goroutine (so that it is a schedulable thread under E1).
type memConn struct {
	r      *bytes.Reader
	w      bytes.Buffer
	closed bool
}

func (c *memConn) Read(b []byte) (int, error)       { return c.r.Read(b) }
func (c *memConn) Write(b []byte) (int, error)      { return c.w.Write(b) }
func (c *memConn) Close() error                     { c.closed = true; return nil }
func (c *memConn) LocalAddr() net.Addr              { return memAddr{} }
func (c *memConn) RemoteAddr() net.Addr             { return memAddr{} }
func (c *memConn) SetDeadline(time.Time) error      { return nil }
func (c *memConn) SetReadDeadline(time.Time) error  { return nil }
func (c *memConn) SetWriteDeadline(time.Time) error { return nil }

type memAddr struct{}

func (memAddr) Network() string { return "mem" }
func (memAddr) String() string  { return "mem" }

type syncReply struct {
	Refused   bool
	Key       glow.PublicKey
	Offset    uint32
	Bitfield  [504]byte
	Rest      []byte // server list / migration part
	Timestamp uint64
	Sig       glow.Signature
	Signed    []byte
}

func parseSyncReply(b []byte) (*syncReply, error) {
	if len(b) == 1 && b[0] == 0 {
		return &syncReply{Refused: true}, nil
	}
	if len(b) < 2 {
		return nil, fmt.Errorf("reply of %d bytes", len(b))
	}
	n := int(b[0]) | int(b[1])<<8
	if n != len(b)-2 {
		return nil, fmt.Errorf("length prefix %d but %d bytes follow", n, len(b)-2)
	}
	body := b[2:]
	if len(body) < 32+4+504+8+64 {
		return nil, fmt.Errorf("reply too short: %d", len(body))
	}
	r := &syncReply{}
	copy(r.Key[:], body[:32])
	r.Offset = uint32(body[32]) | uint32(body[33])<<8 | uint32(body[34])<<16 | uint32(body[35])<<24
	copy(r.Bitfield[:], body[36:540])
	r.Rest = body[540 : len(body)-72]
	for i := 0; i < 8; i++ {
		r.Timestamp |= uint64(body[len(body)-72+i]) << (8 * i)
	}
	copy(r.Sig[:], body[len(body)-64:])
	r.Signed = body[:len(body)-64]
	return r, nil
}

func idBytes(id uint32) []byte {
	return []byte{byte(id), byte(id >> 8), byte(id >> 16), byte(id >> 24)}
}

type statsJSON struct {
	Devices []struct {
		PublicKey    glow.PublicKey
		PowerOutputs []int64
		ImpactRates  []float64
	}
	TimeslotOffset uint32
	Signature      glow.Signature
}

func (w *srvWorld) stats(tso string) (int, *statsJSON, []byte) {
	code, body := w.httpDo(http.MethodGet, "/api/v1/all-device-stats?timeslot_offset="+tso, nil)
	if code != 200 {
		return code, nil, body
	}
	var s statsJSON
	if err := json.Unmarshal(body, &s); err != nil {
		return -1, nil, body
	}
	return code, &s, body
}

func (w *srvWorld) recentReports(pk glow.PublicKey) (int, *server.RecentReportsResponse) {
	code, body := w.httpDo(http.MethodGet, fmt.Sprintf("/api/v1/recent-reports?publicKey=%x", pk[:]), nil)
	if code != 200 {
		return code, nil
	}
	var r server.RecentReportsResponse
	if err := json.Unmarshal(body, &r); err != nil {
		return -1, nil
	}
	return code, &r
}

func (w *srvWorld) equipment() (int, map[uint32]glow.EquipmentAuthorization) {
	code, body := w.httpDo(http.MethodGet, "/api/v1/equipment", nil)
	if code != 200 {
		return code, nil
	}
	var r server.EquipmentResponse
	if err := json.Unmarshal(body, &r); err != nil {
		return -1, nil
	}
	return code, r.EquipmentDetails
}

func (w *srvWorld) fileSize(name string) int64 {
	fi, err := os.Stat(filepath.Join(w.Dir, name))
	if err != nil {
		return -1
	}
	return fi.Size()
}

// checkPublic compares every public observable with the model and returns a
// description of the first disagreement.
func (w *srvWorld) checkPublic(m *srvModel) (sig, what string) {
	// equipment list
	code, eq := w.equipment()
	if code != 200 {
		return "public/equipment-status", fmt.Sprintf("GET equipment -> %d", code)
	}
	if len(eq) != len(m.Devices) {
		return "public/equipment-set", fmt.Sprintf("equipment list has %d devices, model %d", len(eq), len(m.Devices))
	}
	for id, ea := range m.Devices {
		if got, ok := eq[id]; !ok || !bytes.Equal(refAuthBytes(got), refAuthBytes(ea)) {
			return "public/equipment-set", fmt.Sprintf("equipment list entry for id %d differs from the accepted authorization", id)
		}
	}
	ids := map[uint32]glow.PublicKey{}
	for id, ea := range m.Devices {
		ids[id] = ea.PublicKey
	}
	for id := range m.Bans {
		ids[id] = glow.PublicKey{}
	}
	for id, pk := range ids {
		_, live := m.Devices[id]
		// TCP sync
		raw, p := w.syncRaw(idBytes(id))
		if p != "" {
			return "public/sync-panic", p
		}
		rep, err := parseSyncReply(raw)
		if err != nil {
			return "public/sync-malformed", err.Error()
		}
		if !live {
			if !rep.Refused {
				return "public/sync-banned-served", fmt.Sprintf("sync for banned id %d is answered", id)
			}
			continue
		}
		if rep.Refused {
			return "public/sync-refused", fmt.Sprintf("sync for authorized id %d refused", id)
		}
		if rep.Key != pk || rep.Offset != m.Offset {
			return "public/sync-header", fmt.Sprintf("sync for id %d: key/offset %x/%d, model %x/%d", id, rep.Key[:4], rep.Offset, pk[:4], m.Offset)
		}
		if !refVerify(w.Srv.Pub, rep.Signed, rep.Sig) {
			return "public/sync-signature", fmt.Sprintf("sync reply for id %d does not verify under the server key", id)
		}
		// the rest of the reply: the migration order of this device, or the current server list
		wantRest := refReply{Servers: m.Servers}
		if mg, ok := m.Migrations[pk]; ok {
			wantRest = refReply{NewGCA: mg.NewGCA, NewID: mg.NewShortID, Servers: mg.NewServers, MigSig: mg.Signature}
		}
		if wb := wantRest.body(); !bytes.Equal(rep.Rest, wb[540:len(wb)-8]) {
			return "public/sync-list-or-migration", fmt.Sprintf("sync for id %d: the list / migration part of the reply (%d bytes) is not the reference encoding of what the server holds (%d bytes)", id, len(rep.Rest), len(wb)-548)
		}
		for i := 0; i < mWindow; i++ {
			bit := rep.Bitfield[i/8]&(1<<(i%8)) != 0
			want := m.Slots[id][m.Offset+uint32(i)].value() > 0
			if bit != want {
				return "public/sync-bitfield", fmt.Sprintf("sync bit %d for id %d is %v, model %v", i, id, bit, want)
			}
		}
		// recent reports
		code, rr := w.recentReports(pk)
		if code != 200 {
			return "public/recent-status", fmt.Sprintf("recent-reports for id %d -> %d", id, code)
		}
		// the answer is signed by the server over the JSON encoding of the reports
		if rj, err := json.Marshal(rr.Reports); err != nil || !refVerify(w.Srv.Pub, rj, rr.Signature) {
			return "public/recent-signature", fmt.Sprintf("recent-reports for id %d does not verify under the server key", id)
		}
		// the key parameter is 64 hexadecimal digits (either case); anything else names no device
		hexKey := fmt.Sprintf("%x", pk[:])
		for _, q := range []string{hexKey + "00", "0x" + hexKey, hexKey[:62], hexKey + "%20", "%20" + hexKey, hexKey[:63], hexKey + "&publicKey=" + hexKey[:62], strings.ToUpper(hexKey)} {
			code, body := w.httpDo(http.MethodGet, "/api/v1/recent-reports?publicKey="+q, nil)
			wantOK := q == strings.ToUpper(hexKey) || strings.HasPrefix(q, hexKey+"&")
			if (code == 200) != wantOK {
				return "public/recent-key-grammar", fmt.Sprintf("recent-reports?publicKey=%s answered %d", q, code)
			}
			if code == 200 {
				var r2 server.RecentReportsResponse
				if json.Unmarshal(body, &r2) != nil || r2.Reports != rr.Reports {
					return "public/recent-key-grammar", fmt.Sprintf("recent-reports?publicKey=%s answered with other data than the plain spelling", q)
				}
			}
		}
		for i := 0; i < mWindow; i++ {
			want := m.Slots[id][m.Offset+uint32(i)].value()
			if rr.Reports[i].PowerOutput != want {
				return "public/recent-value", fmt.Sprintf("recent-reports slot %d of id %d has power %d, model %d", i, id, rr.Reports[i].PowerOutput, want)
			}
		}
	}
	// keys that name no device: those of banned devices and one that was never authorized. A lookup by such a key
	// must be refused, whatever other devices exist (a missing index entry must not read as short id 0).
	strangers := append([]glow.PublicKey{key("never-authorized").Pub}, m.Gone...)
	for _, pk := range strangers {
		live := false
		for _, ea := range m.Devices {
			if ea.PublicKey == pk {
				live = true
			}
		}
		if live {
			continue
		}
		if code, rr := w.recentReports(pk); code == 200 {
			n := 0
			for _, r := range rr.Reports {
				if r.PowerOutput != 0 {
					n++
				}
			}
			return "public/recent-reports-for-a-key-that-names-no-device", fmt.Sprintf("recent-reports for key %x (banned or never authorized) answered 200 with %d non-empty reports", pk[:4], n)
		}
	}
	// weekly statistics of both live weeks
	for half := 0; half < 2; half++ {
		tso := m.Offset + uint32(half)*mWeek
		code, st, body := w.stats(fmt.Sprint(tso))
		if code != 200 {
			return "public/stats-status", fmt.Sprintf("stats for live week %d -> %d %s", tso, code, body)
		}
		if s, wh := compareWeek(st, m.liveWeek(half), tso, w.Srv.Pub); s != "" {
			return "public/stats-" + s, wh
		}
	}
	return "", ""
}

// compareWeek checks a served weekly record against the model's devices.
func compareWeek(st *statsJSON, want map[glow.PublicKey]*weekDevice, tso uint32, srvKey glow.PublicKey) (string, string) {
	if st.TimeslotOffset != tso {
		return "offset", fmt.Sprintf("served record labelled %d, requested %d", st.TimeslotOffset, tso)
	}
	if len(st.Devices) != len(want) {
		return "devices", fmt.Sprintf("week %d served with %d devices, model %d", tso, len(st.Devices), len(want))
	}
	rec := weekRecord{Offset: st.TimeslotOffset, Sig: st.Signature}
	seen := map[glow.PublicKey]bool{}
	for _, d := range st.Devices {
		wd, ok := want[d.PublicKey]
		if !ok || seen[d.PublicKey] {
			return "devices", fmt.Sprintf("week %d lists unexpected or duplicate device %x", tso, d.PublicKey[:4])
		}
		seen[d.PublicKey] = true
		if len(d.PowerOutputs) != mWeek || len(d.ImpactRates) != mWeek {
			return "shape", "wrong number of slots"
		}
		var rd weekDevice
		rd.Key = d.PublicKey
		for i := 0; i < mWeek; i++ {
			rd.Power[i] = uint64(d.PowerOutputs[i])
			rd.Rate[i] = d.ImpactRates[i]
			if rd.Power[i] != wd.Power[i] {
				return "value", fmt.Sprintf("week %d device %x slot %d: served %d, model %d", tso, d.PublicKey[:4], i, d.PowerOutputs[i], int64(wd.Power[i]))
			}
			if rd.Rate[i] != wd.Rate[i] {
				return "rate", fmt.Sprintf("week %d device %x slot %d: impact rate %v, model %v", tso, d.PublicKey[:4], i, rd.Rate[i], wd.Rate[i])
			}
		}
		rec.Devices = append(rec.Devices, rd)
	}
	if !refVerify(srvKey, refWeekSigningBytes(rec), rec.Sig) {
		return "signature", fmt.Sprintf("week %d does not verify under the server key over the documented layout", tso)
	}
	return "", ""
}

// pageTearPhantom chooses, for each fixed-size-record file, how many earlier records to imagine in front of
// the file so that the NEXT record appended straddles a page boundary (which record straddles in a real
// file only depends on how many records precede it).
func pageTearPhantom(dir string) map[string]int64 {
	out := map[string]int64{}
	for name, rec := range map[string]int64{"equipment-reports.dat": 80, "equipment-authorizations.dat": 148, "allDeviceStats.dat": 72} {
		var size int64
		if fi, err := os.Stat(filepath.Join(dir, name)); err == nil {
			size = fi.Size()
		}
		for m := int64(0); m < 4096; m++ {
			if at := (size + m*rec) % vos.PageSize; at+rec > vos.PageSize {
				out[name] = m * rec
				break
			}
		}
	}
	return out
}

// touch makes the requests whose answers an implementation might be tempted to remember: a sync request per live
// device and the server list. Called after every operation of a history so that anything cached is cached in
// every intermediate state, not only in the final one.
func (w *srvWorld) touch(m *srvModel) (sig, what string) {
	for id, ea := range m.Devices {
		var raw []byte
		if p := safely(func() { raw, _ = w.syncRaw(idBytes(id)) }); p != "" {
			continue // panics are the business of the full comparison
		}
		// the list / migration part is compared on the spot: the deep comparison only sees one history per state
		if rep, err := parseSyncReply(raw); err == nil && !rep.Refused {
			wantRest := refReply{Servers: m.Servers}
			if mg, ok := m.Migrations[ea.PublicKey]; ok {
				wantRest = refReply{NewGCA: mg.NewGCA, NewID: mg.NewShortID, Servers: mg.NewServers, MigSig: mg.Signature}
			}
			if wb := wantRest.body(); !bytes.Equal(rep.Rest, wb[540:len(wb)-8]) && sig == "" {
				sig, what = "sync-list-or-migration-differs", fmt.Sprintf("sync for id %d: the list / migration part of the reply is not the reference encoding of what the server holds", id)
			}
		}
	}
	safely(func() { w.httpDo("GET", "/api/v1/authorized-servers", nil) })
	// the equipment list, compared on the spot as well
	var code int
	var eq map[uint32]glow.EquipmentAuthorization
	if p := safely(func() { code, eq = w.equipment() }); p == "" && code == 200 && sig == "" {
		if len(eq) != len(m.Devices) {
			sig, what = "equipment-list-differs", fmt.Sprintf("equipment list has %d devices, the server holds %d", len(eq), len(m.Devices))
		}
		for id, ea := range m.Devices {
			if got, ok := eq[id]; sig == "" && (!ok || !bytes.Equal(refAuthBytes(got), refAuthBytes(ea))) {
				sig, what = "equipment-list-differs", fmt.Sprintf("equipment list entry for id %d is not the accepted authorization", id)
			}
		}
	}
	return
}
