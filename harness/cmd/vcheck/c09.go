package main

// C09 - a device never signs two different reports for the same timeslot.
// (a) BFS over histories of energy-file edits, send-loop ticks, client
// restarts and sync rounds against a permissive server, on the real client;
// (b) BFS over save/load sequences of the history store.

import (
	"encoding/binary"
	"encoding/json"
	"fmt"
	"os"
	"path/filepath"
	"sort"
	"strings"

	"github.com/glowlabs-org/gca-backend/client"
	"github.com/glowlabs-org/gca-backend/glow"

	"verifh/ev"
	"verifh/pool"
	"verifh/vsched"
)

const c09Origin = 5 // history origin (timeslot)

var c09Slots = map[string]int64{"t1": 10, "t2": 11, "pre": 3}

type c09Arg struct {
	Big bool `json:"big"` // include readings that do not fit 32 signed bits
}

func c09Exec(raw json.RawMessage, hist []string, deep bool) *bfsResult {
	var arg c09Arg
	json.Unmarshal(raw, &arg)
	res := &bfsResult{Expand: true}
	resetGlobals()
	scriptClientRandomness()
	hub := newHub()
	dev := key("kDev")
	s0 := mkScripted("S0", 10)
	header := "timestamp,energy (mWh)\n"
	cfg := cliConfig{Key: dev, ShortID: 5, GCA: key("G1").Pub, HistoryOffset: c09Origin, Energy: &header,
		Servers: map[glow.PublicKey]client.GCAServer{s0.Key.Pub: s0.entry()}}
	w, err := newClientWorld(cfg)
	if err != nil {
		res.fail("harness/setup", err.Error())
		return res
	}
	poisoned := false
	defer func() {
		if poisoned {
			w.Abandon()
			return
		}
		if p := safely(func() { w.Close() }); p != "" {
			res.fail("close-panic", p)
		}
		w.Cleanup()
	}()
	// permissive server: nothing received yet, window starts at 0
	hub.serveBytes(s0.tcpAddr(), func([]byte) []byte {
		return refReply{DevKey: dev.Pub, Offset: 0, Timestamp: nowUnix()}.encode(s0.Key.Priv)
	})
	genesis := int64(glow.GenesisTime)
	var rows []string
	write := func() { w.setEnergy(header + strings.Join(rows, "\n") + "\n") }
	histPath := filepath.Join(w.Dir, client.HistoryFile)
	cells := map[int]uint32{} // history cells seen non-zero
	checkCells := func(stage string) bool {
		b, _ := os.ReadFile(histPath)
		for i := 4; i+4 <= len(b); i += 4 {
			v := binary.LittleEndian.Uint32(b[i:])
			if old, ok := cells[i]; ok && old != v {
				res.fail("history-cell-changed", map[string]interface{}{"history": hist, "stage": stage, "cell": i/4 - 1, "was": old, "now": v})
				return false
			}
			if v != 0 {
				cells[i] = v
			}
		}
		return true
	}
	latest := uint32(0)
	for i, op := range hist {
		p := strings.Split(op, ":")
		switch p[0] {
		case "app":
			rows = append(rows, fmt.Sprintf("%d,%s", genesis+c09Slots[p[1]]*300+1, p[2]))
			write()
		case "chg":
			if len(rows) == 0 {
				continue
			}
			f := strings.Split(rows[0], ",")
			rows[0] = f[0] + "," + p[1]
			write()
		case "dup":
			if len(rows) == 0 {
				continue
			}
			f := strings.Split(rows[len(rows)-1], ",")
			rows = append(rows, f[0]+","+p[1])
			write()
		case "rev":
			for a, b := 0, len(rows)-1; a < b; a, b = a+1, b-1 {
				rows[a], rows[b] = rows[b], rows[a]
			}
			write()
		case "mal":
			rows = append(rows, "garbage,,")
			write()
		case "rm":
			if len(rows) == 0 {
				continue
			}
			rows = rows[1:]
			write()
		case "tick":
			if err := w.tick(); err != nil {
				res.fail("send-loop-stuck", map[string]interface{}{"history": hist, "step": i, "err": err.Error()})
				poisoned = true
				res.Expand = false
				return res
			}
		case "restart":
			if err := w.Restart(); err != nil {
				res.fail("client-restart-fails", map[string]interface{}{"history": hist, "err": err.Error()})
				poisoned = true
				res.Expand = false
				return res
			}
		case "sync":
			for _, r := range rows {
				var ts int64
				fmt.Sscanf(r, "%d,", &ts)
				if ts >= genesis {
					if s := uint32((ts - genesis) / 300); s > latest {
						latest = s
					}
				}
			}
			_, pn, hung := w.syncRound(latest)
			if pn != "" || hung {
				res.fail("panic-or-hang/sync", map[string]interface{}{"history": hist, "panic": firstLine(pn), "hung": hung})
				poisoned = true
				res.Expand = false
				return res
			}
		}
		if !checkCells(op) {
			res.Expand = false
			return res
		}
	}
	// all datagrams for one slot with a power the server acts on are identical
	bySlot := map[uint32][][]byte{}
	for _, d := range hub.Log {
		ts := binary.LittleEndian.Uint32(d.Bytes[4:8])
		pw := binary.LittleEndian.Uint64(d.Bytes[8:16])
		if pw == 0 || pw == 1 {
			continue
		}
		bySlot[ts] = append(bySlot[ts], d.Bytes)
	}
	var keyParts []string
	for ts, ds := range bySlot {
		for _, d := range ds[1:] {
			if string(d) != string(ds[0]) {
				p0 := binary.LittleEndian.Uint64(ds[0][8:16])
				p1 := binary.LittleEndian.Uint64(d[8:16])
				cls := "value-fits-int32"
				if int64(p0) != int64(int32(uint32(p0))) || int64(p1) != int64(int32(uint32(p1))) {
					cls = "value-does-not-fit-int32"
				}
				res.fail("datagrams-differ/"+cls, map[string]interface{}{"history": hist, "slot": ts, "first_power": p0, "later_power": p1})
				res.Expand = false
				break
			}
		}
		keyParts = append(keyParts, fmt.Sprintf("sent%d=%d", ts, binary.LittleEndian.Uint64(ds[0][8:16])))
	}
	for _, d := range hub.Log {
		ts := binary.LittleEndian.Uint32(d.Bytes[4:8])
		if int64(ts) < c09Origin {
			res.fail("report-for-slot-before-history-origin", map[string]interface{}{"history": hist, "slot": ts})
			res.Expand = false
		}
	}
	sort.Strings(keyParts)
	var cs []string
	for i, v := range cells {
		cs = append(cs, fmt.Sprintf("%d:%d", i, v))
	}
	sort.Strings(cs)
	res.Key = strings.Join(rows, "|") + "#" + strings.Join(cs, ",") + "#" + strings.Join(keyParts, ",") + fmt.Sprintf("#n=%d", len(hub.Log))
	res.Outcome = fmt.Sprintf("slots_sent=%d datagrams=%d", len(bySlot), len(hub.Log))
	if !w.C.VerifTryLock() {
		res.fail("lock-held", hist)
		poisoned = true
		res.Expand = false
	}
	return res
}

// ---- store-level sub-check ----

func c09Store(run *ev.Run, depth int) (states, trans int) {
	resetGlobals()
	scriptClientRandomness()
	newHub()
	dev := key("kDev")
	s0 := mkScripted("S0", 10)
	// incl. the largest slot the energy-file reader can yield, and slots whose byte offset 4*(1+slot-origin)
	// does not fit 32 bits (it would wrap onto the header / onto the cell of slot origin+1)
	slots := []uint32{c09Origin - 1, c09Origin, c09Origin + 1, c09Origin + 5000, 14316557, c09Origin + 1<<30 - 1, c09Origin + 1<<30 + 1, 1<<32 - 1}
	vals := []uint32{0, 1, 5, 1<<32 - 1, 6}
	var ops []string
	for _, s := range slots {
		for _, v := range vals {
			ops = append(ops, fmt.Sprintf("save:%d:%d", s, v))
		}
	}
	exec := func(hist []string) (string, bool) {
		cfg := cliConfig{Key: dev, ShortID: 5, GCA: key("G1").Pub, HistoryOffset: c09Origin,
			Servers: map[glow.PublicKey]client.GCAServer{s0.Key.Pub: s0.entry()}}
		w, err := newClientWorld(cfg)
		if err != nil {
			run.Count("harness_errors", 1)
			return "ERR", false
		}
		defer func() { w.Close(); w.Cleanup() }()
		model := map[uint32]uint32{}
		ok := true
		for i, op := range hist {
			var s, v uint32
			fmt.Sscanf(op, "save:%d:%d", &s, &v)
			var serr error
			if p := safely(func() { serr = w.C.VerifSaveReading(s, v) }); p != "" {
				run.Violation("store/panic", map[string]interface{}{"history": hist, "panic": firstLine(p)})
				return "PANIC", false
			}
			// out of range: before the origin, or so far beyond it that the byte offset no longer fits the
			// file format's 32-bit arithmetic - such readings must be refused rather than misplaced
			outOfRange := s < c09Origin || uint64(s-c09Origin)+1 >= 1<<30
			wantErr := outOfRange || (model[s] != 0 && model[s] != v)
			if outOfRange && v == 0 {
				wantErr = serr != nil // saving "nothing" out of range may be a no-op or an error
			}
			if i == len(hist)-1 && (serr != nil) != wantErr {
				run.Violation("store/save-result", map[string]interface{}{"history": hist, "err": fmt.Sprint(serr), "model_expects_error": wantErr})
				ok = false
			}
			if !wantErr && v != 0 {
				model[s] = v
			}
		}
		// the header (history origin) is never overwritten
		if hb, err := os.ReadFile(filepath.Join(w.Dir, client.HistoryFile)); err == nil && len(hb) >= 4 && binary.LittleEndian.Uint32(hb) != c09Origin {
			run.Violation("store/header-overwritten", map[string]interface{}{"history": hist, "header": binary.LittleEndian.Uint32(hb)})
			ok = false
		}
		// every slot reads back what the model holds, and nothing else moved
		for _, s := range append(append([]uint32{}, slots...), c09Origin+2, c09Origin+4999, 14316556) {
			var got uint32
			var lerr error
			if p := safely(func() { got, lerr = w.C.VerifLoadReading(s) }); p != "" {
				run.Violation("store/panic-load", map[string]interface{}{"history": hist, "panic": firstLine(p)})
				return "PANIC", false
			}
			if lerr != nil || got != model[s] {
				run.Violation("store/load-differs", map[string]interface{}{"history": hist, "slot": s, "got": got, "model": model[s], "err": fmt.Sprint(lerr)})
				ok = false
			}
		}
		var ks []string
		for s, v := range model {
			ks = append(ks, fmt.Sprintf("%d=%d", s, v))
		}
		sort.Strings(ks)
		return strings.Join(ks, ","), ok
	}
	st := bfsInProc(run, depth, 0, func([]string) []string { return ops }, exec)
	return st.States, st.Transitions
}

func init() {
	bfsSystems["c09"] = c09Exec
	pool.Register("c09store", func(data json.RawMessage) (interface{}, error) { return nil, nil })
	checks["C09"] = func(tier string) int {
		run := newRun("C09", tier, "model_checking")
		p := pool.New(0)
		ops := []string{"app:t1:100", "app:t1:200", "app:t2:100", "app:t1:5", "app:t1:abc", "app:t2:3", "app:pre:100", "chg:300", "dup:400", "rev", "mal", "rm", "tick", "restart", "sync",
			"app:t2:3000000000", "app:t1:4294967396"}
		depth := 3
		if tier == "thorough" {
			depth = 5
		}
		st := bfsPool(run, p, "c09", c09Arg{Big: true}, depth, 0, func([]string) []string { return ops })
		sd := 2
		if tier == "thorough" {
			sd = 3
		}
		s2, t2 := c09Store(run, sd)
		st.States += s2
		st.Transitions += t2
		finishBfs(run, st, "(a) BFS over histories of energy-file edits (append for two slots and a slot before the history origin, values 100/200/sentinel 2/unparseable (sentinel 3)/literal 3/3e9/2^32+100, rewrite, duplicate with another value, reorder, malformed row, remove), send-loop ticks, client restarts and sync rounds against a server that reports nothing received, on the real client; every datagram on the wire is logged; oracle: per slot all datagrams with power not in {0,1} are identical, no history cell ever changes once non-zero, no report for a slot before the origin; (b) BFS (depth 2 quick / 3 thorough) over save sequences of the history store on 8 slots (before the origin, at it, far beyond the end of the file, the largest slot the reader can yield, and slots whose 32-bit byte offset would wrap) x 5 values against a map model; the header must never change; (c) every interleaving at file operations of the report loop's conflict check + save against a sync round's scan of three slots on the same history file handle: the occupied slot keeps its value, the different value is refused, every load returns its own cell")
		run.Coverage["alphabet"] = ops
		run.Coverage["store_states"] = s2
		run.Coverage["store_transitions"] = t2
		ce, cok := c09Concurrent(run)
		run.Coverage["schedules"] = ce
		rc := exitCode(run, st)
		if !cok && rc == 0 {
			return 3
		}
		return rc
	}
}

// ---- the history store under two goroutines ----
//
// The report loop (conflict check + save) and a sync round's scan (loads) use the same history file handle at the
// same time. Every interleaving at file operations: a stored reading is returned unchanged by every load, a
// different value for an occupied slot is refused, loads of empty slots return 0.

type c09ConcArg struct {
	Scan []uint32 `json:"scan"` // slots the scanning goroutine loads
}

func init() {
	scenarios["c09conc"] = func(raw json.RawMessage) *scenario {
		var a c09ConcArg
		json.Unmarshal(raw, &a)
		return &scenario{Name: "c09conc", Run: func(choose vsched.Chooser) *execOutcome {
			out := &execOutcome{Res: &vsched.Result{}}
			resetGlobals()
			scriptClientRandomness()
			s0 := mkScripted("S0", 10)
			cfg := cliConfig{Key: key("kDev"), ShortID: 0, GCA: key("G1").Pub, HistoryOffset: c09Origin,
				Servers: map[glow.PublicKey]client.GCAServer{s0.Key.Pub: s0.entry()}}
			w, err := newClientWorld(cfg)
			if err != nil {
				out.HarnessErr = err.Error()
				return out
			}
			defer func() { w.Close(); w.Cleanup() }()
			const slot, first, second = c09Origin + 10, 777, 778
			if err := w.C.VerifSaveReading(slot, first); err != nil {
				out.HarnessErr = "set-up save: " + err.Error()
				return out
			}
			var saveErr error
			var loaded, rechecked uint32
			scanned := make([]uint32, len(a.Scan))
			bodies := []func(){
				func() { // the report loop meets a rewritten row
					saveErr = w.C.VerifSaveReading(slot, second)
					loaded, _ = w.C.VerifLoadReading(slot)
				},
				func() { // a sync round scans the window
					for i, s := range a.Scan {
						scanned[i], _ = w.C.VerifLoadReading(s)
					}
				},
			}
			res := vsched.Run([]string{"loop", "scan"}, bodies, choose, vsched.Options{PointOnFS: true})
			out.Res = res
			for _, p := range res.Panics {
				out.Violations = append(out.Violations, vio{"conc/panic", p})
			}
			if res.Deadlock {
				out.Violations = append(out.Violations, vio{"conc/deadlock", res.DeadlockInfo})
			}
			if len(res.Panics) == 0 && !res.Deadlock {
				rechecked, _ = w.C.VerifLoadReading(slot)
				switch {
				case saveErr == nil:
					out.Violations = append(out.Violations, vio{"conc/different-value-accepted-for-an-occupied-slot", fmt.Sprintf("save(%d, %d) succeeded although the slot holds %d", slot, second, first)})
				case loaded != first || rechecked != first:
					out.Violations = append(out.Violations, vio{"conc/stored-reading-not-returned", fmt.Sprintf("slot %d holds %d, loads returned %d and %d", slot, first, loaded, rechecked)})
				}
				for i, s := range a.Scan {
					want := uint32(0)
					if s == slot {
						want = first
					}
					if scanned[i] != want {
						out.Violations = append(out.Violations, vio{"conc/scan-reads-another-cell", fmt.Sprintf("load(%d) returned %d, the cell holds %d", s, scanned[i], want)})
						break
					}
				}
			}
			out.Outcome = fmt.Sprintf("save=%v loaded=%d scan=%v", saveErr != nil, loaded, scanned)
			out.Collided = len(res.Steps) > 0
			return out
		}}
	}
}

// c09Concurrent explores the scenario and reports into run.
func c09Concurrent(run *ev.Run) (execs int, ok bool) {
	p := pool.New(0)
	a := c09ConcArg{Scan: []uint32{c09Origin + 500, c09Origin + 10, c09Origin + 501}}
	st, bad := exploreSharded("c09conc", a, -1, 0, 2, p)
	if st.HarnessErr != "" {
		fmt.Println("HARNESS ERROR:", st.HarnessErr)
		run.Count("harness_errors", 1)
		return st.Executions, false
	}
	for _, b := range bad {
		fmt.Println("HARNESS ERROR (worker):", b.Err, firstLine(b.Panic), b.Timeout)
		run.Count("harness_errors", 1)
		return st.Executions, false
	}
	for _, v := range st.Violations {
		run.Violation(v.Sig, map[string]interface{}{"scenario": "c09conc", "arg": a, "schedule": v.Schedule, "detail": v.Detail, "replay": mkReplay("explore1", exploreOneJob{Scenario: "c09conc", Arg: mustJSON(a), Schedule: v.Schedule})})
	}
	if st.StepCapHit > 0 || st.CapHit {
		run.NotExhaustive("execution cap hit in the two-goroutine history scenario")
	}
	run.Coverage["history_store_two_goroutines"] = map[string]interface{}{"schedules": st.Executions, "distinct_outcomes": len(st.Outcomes), "longest_schedule": st.MaxSteps}
	return st.Executions, true
}
