package main

// C08 - lost datagrams are eventually recovered; retransmissions identical.
// Real client + real server in one process, scripted network in between,
// virtual time. Every combination of per-slot reading, fate of the original
// datagram, outcome of an earlier sync round and an intervening rotation or
// server restart is run; the final round is fault-free.

import (
	"bytes"
	"encoding/binary"
	"encoding/json"
	"fmt"
	"net"
	"os"
	"path/filepath"
	"strconv"
	"strings"
	"time"

	"github.com/glowlabs-org/gca-backend/client"
	"github.com/glowlabs-org/gca-backend/glow"

	"verifh/pool"
	"verifh/shim/vtime"
)

type c08Job struct {
	Readings []string `json:"readings"`  // per slot: "", "5000", "-3000", "10" (sentinel 2), "abc" (sentinel 3)
	Fates    []string `json:"fates"`     // per slot: deliver | drop | dup
	Early    string   `json:"early"`     // none | dialfail | badreply | ok-drop | ok-deliver
	Between  string   `json:"between"`   // none | rotate | restart
	Base     int      `json:"base"`      // first timeslot (0 = the default colliding base)
	Slots    []int    `json:"slots"`     // explicit timeslots per reading (wide family); empty = consecutive from Base
	FixedNow int      `json:"fixed_now"` // server clock stays here (wide family); 0 = the clock follows the readings
	Revised  []string `json:"revised"`   // per slot: what the meter's row says when the file is read again after the originals were sent ("" = unchanged)
	// Loop: the readings are in the file when the device starts (stored, not sent); the device is restarted
	// (Revised applied to the file in between), and the sync round is the one the device's own report loop
	// launches, with the loop's own notion of the latest reading - not a round driven by the harness.
	Loop bool `json:"loop"`
}

const c08Base = 2099 // timeslot of the first reading: bits 3,4,5 of one bitfield byte, so that a mirrored or shifted bit mapping makes a delivered slot shadow a lost one

func c08LoopRun(j c08Job) *jobReport {
	rep := &jobReport{Reasons: map[string]int{}}
	cfgDesc := fmt.Sprintf("%+v", j)
	genesis := int64(glow.GenesisTime)
	file := func(revised bool) string {
		c := "timestamp,energy (mWh)\n"
		for i, r := range j.Readings {
			if revised && i < len(j.Revised) && j.Revised[i] != "" {
				r = j.Revised[i]
			}
			c += fmt.Sprintf("%d,%s\n", genesis+int64(c08Base+4*i)*300+7, r)
		}
		return c
	}
	content := file(false)
	newest := c08Base + 4*(len(j.Readings)-1)
	p, err := newPairWorld("c08loop", 3000000000, []string{fmt.Sprintf("now:%d", newest)}, &content, 2000)
	if err != nil {
		rep.fail("harness/setup", err.Error())
		return rep
	}
	poisoned := false
	defer func() {
		r := &bfsResult{}
		p.finish(r, poisoned)
		for _, v := range r.Violations {
			rep.fail(v.Sig, v.Detail)
		}
	}()
	if len(p.Hub.Log) != 0 {
		rep.Reasons["start-up sends"]++
	}
	// restart with the revised file
	if err := p.Cli.Close(); err != nil {
		rep.fail("harness/close", err.Error())
		poisoned = true
		return rep
	}
	p.Cli.setEnergy(file(true))
	// the last successful sync on record is seven hours old, so the loop tries one at its first opportunity
	must(os.WriteFile(filepath.Join(p.Cli.Dir, client.LastSyncFile), []byte(fmt.Sprint(int64(nowUnix())-7*3600)), 0644))
	vtime.Advance(3 * time.Second)
	if err := p.Cli.start(); err != nil {
		rep.fail("client-restart-fails", map[string]interface{}{"config": cfgDesc, "err": err.Error()})
		poisoned = true
		return rep
	}
	stampBefore, _ := os.ReadFile(filepath.Join(p.Cli.Dir, client.LastSyncFile))
	// one tick: the loop launches its own sync round (no successful sync is on record)
	known := map[int64]bool{}
	for _, pi := range vtime.Pending() {
		known[pi.Goid] = true
	}
	if err := p.Cli.tick(); err != nil {
		rep.fail("harness/tick", err.Error())
		poisoned = true
		return rep
	}
	deadline := time.Now().Add(20 * time.Second)
	done := false
	for time.Now().Before(deadline) {
		if b, err := os.ReadFile(filepath.Join(p.Cli.Dir, client.LastSyncFile)); err == nil && string(b) != string(stampBefore) {
			done = true
			break
		}
		// only the between-attempts sleep of a round born after the tick is ended early (never the 120 s test-mode watchdogs)
		vtime.FireMatch(func(pi vtime.PendingInfo) bool { return !known[pi.Goid] && pi.D == cc.SendReportTime }, false, time.Second)
		time.Sleep(200 * time.Microsecond)
	}
	rep.Evals++
	if !done {
		rep.Inconclusive = append(rep.Inconclusive, "the loop's own sync round did not record a success within 20 s (inconclusive): "+cfgDesc)
		poisoned = true
		return rep
	}
	time.Sleep(5 * time.Millisecond) // the round writes its stamp after the last retransmission
	snap := p.Srv.S.VerifSnapshot()
	held := map[uint32]uint64{}
	for _, sl := range snap.Reports[p.ID] {
		held[snap.ReportsOffset+sl.Index] = sl.Report.PowerOutput
	}
	for i, r := range j.Readings {
		ts := uint32(c08Base + 4*i)
		want := c08Value(r) // what the device stored first is what it reports
		got, ok := held[ts]
		switch {
		case !ok:
			rep.fail("not-recovered-by-the-loops-own-sync/after-restart", map[string]interface{}{"config": cfgDesc, "slot": ts, "newest_slot": newest})
		case got != want:
			rep.fail("wrong-value-after-restart", map[string]interface{}{"config": cfgDesc, "slot": ts, "server": got, "first_reading": want})
		}
	}
	rep.Reasons[fmt.Sprintf("loop sync after restart, %d readings", len(j.Readings))]++
	rep.Accepted++
	return rep
}

func c08Run(j c08Job) *jobReport {
	if j.Loop {
		return c08LoopRun(j)
	}
	rep := &jobReport{Reasons: map[string]int{}}
	c08Base := c08Base
	if j.Base != 0 {
		c08Base = j.Base
	}
	slotOf := func(i int) int {
		if len(j.Slots) > 0 {
			return j.Slots[i]
		}
		return c08Base + i
	}
	indexOf := func(ts uint32) int {
		for i := range j.Readings {
			if slotOf(i) == int(ts) {
				return i
			}
		}
		return -1
	}
	readingClass := func(j c08Job, ts uint32) string {
		if i := indexOf(ts); i >= 0 {
			return readingClassAt(j, uint32(c08Base+i), c08Base)
		}
		return "?"
	}
	startNow := c08Base
	if j.FixedNow != 0 {
		startNow = j.FixedNow
	}
	cfgDesc := fmt.Sprintf("%+v", j)
	header := "timestamp,energy (mWh)\n"
	histOrigin := uint32(2000)
	if len(j.Slots) > 0 {
		histOrigin = 100
	}
	p, err := newPairWorld("c08", 3000000000, []string{fmt.Sprintf("now:%d", startNow)}, &header, histOrigin)
	if err != nil {
		rep.fail("harness/setup", err.Error())
		return rep
	}
	poisoned := false
	defer func() {
		r := &bfsResult{}
		p.finish(r, poisoned)
		for _, v := range r.Violations {
			rep.fail(v.Sig, v.Detail)
		}
	}()
	genesis := int64(glow.GenesisTime)
	// fate of originals, by slot
	dropAll := false
	var delivered [][]byte
	p.Deliver = func(n int, dg []byte) (ok bool) {
		defer func() {
			if ok {
				delivered = append(delivered, dg)
			}
		}()
		if dropAll {
			return false
		}
		ts := binary.LittleEndian.Uint32(dg[4:8])
		i := indexOf(ts)
		if i >= 0 && i < len(j.Fates) && p.phase == "originals" {
			switch j.Fates[i] {
			case "drop":
				return false
			case "dup":
				p.Srv.S.VerifInjectDatagram(dg)
				p.Srv.M.datagram(dg, p.Srv.Now)
			}
		}
		return true
	}
	// the meter writes one row per slot; the client picks each up at its next tick
	content := header
	p.phase = "originals"
	latest := uint32(0)
	for i, r := range j.Readings {
		if r == "" {
			continue
		}
		content += fmt.Sprintf("%d,%s\n", genesis+int64(slotOf(i))*300+7, r)
		p.Cli.setEnergy(content)
		if j.FixedNow == 0 {
			p.Srv.apply(fmt.Sprintf("now:%d", slotOf(i)))
		}
		if err := p.Cli.tick(); err != nil {
			rep.fail("harness/tick", err.Error())
			poisoned = true
			return rep
		}
		if uint32(slotOf(i)) > latest {
			latest = uint32(slotOf(i))
		}
	}
	// the meter rewrites rows it had already written (a half-written row completed, a value corrected): whatever the
	// file says later, the device has reported the first reading, and that is what every retransmission carries
	if len(j.Revised) > 0 {
		content = header
		for i, r := range j.Readings {
			if r == "" {
				continue
			}
			if i < len(j.Revised) && j.Revised[i] != "" {
				r = j.Revised[i]
			}
			content += fmt.Sprintf("%d,%s\n", genesis+int64(slotOf(i))*300+7, r)
		}
		p.Cli.setEnergy(content)
		p.phase = "revision"
		if err := p.Cli.tick(); err != nil {
			rep.fail("harness/tick", err.Error())
			poisoned = true
			return rep
		}
	}
	p.phase = "early"
	round := func(tag string) (bool, bool) {
		ok, pn, hung := p.Cli.syncRound(latest)
		if pn != "" || hung {
			poisoned = true
			rep.fail("panic-or-hang/"+tag, map[string]interface{}{"config": cfgDesc, "panic": firstLine(pn), "hung": hung})
			return false, false
		}
		return ok, true
	}
	realTCP := p.Hub.TCP[p.Addr.tcpAddr()]
	switch j.Early {
	case "dialfail":
		p.Hub.TCP[p.Addr.tcpAddr()] = func() (net.Conn, error) { return nil, fmt.Errorf("connection refused") }
	case "badreply":
		p.Hub.serveBytes(p.Addr.tcpAddr(), func([]byte) []byte { return []byte{5, 0, 1, 2, 3, 4, 5} })
	case "ok-drop":
		dropAll = true
	}
	if j.Early != "none" {
		if _, ok := round("early-round"); !ok {
			return rep
		}
	}
	dropAll = false
	p.Hub.TCP[p.Addr.tcpAddr()] = realTCP
	switch j.Between {
	case "rotate":
		p.Srv.apply("rot")
	case "restart":
		if r := p.Srv.apply("restart"); r.Sig != "" {
			rep.fail("server-restart/"+r.Sig, r.Obs)
			poisoned = true
			return rep
		}
		p.Hub.serveReal(p.Addr.tcpAddr(), p.Srv.srvWorld)
	}
	// final, fault-free round
	p.phase = "final"
	ok, fine := round("final-round")
	if !fine {
		return rep
	}
	rep.Evals++
	if !ok {
		rep.fail("fault-free-round-fails", cfgDesc)
		return rep
	}
	// reordering / duplication of the datagrams that did arrive changes nothing (lost ones stay lost)
	for i := len(delivered) - 1; i >= 0; i-- {
		p.Srv.S.VerifInjectDatagram(delivered[i])
		p.Srv.M.datagram(delivered[i], p.Srv.Now)
	}
	// oracle 1: every retransmission is byte-identical to the first datagram for its slot
	first := map[uint32][]byte{}
	for _, d := range p.Hub.Log {
		ts := binary.LittleEndian.Uint32(d.Bytes[4:8])
		if f, okf := first[ts]; okf {
			if !bytes.Equal(f, d.Bytes) {
				rep.fail("retransmission-differs/"+readingClass(j, ts), map[string]interface{}{"config": cfgDesc, "slot": ts, "first": fmt.Sprintf("%x", f[:16]), "later": fmt.Sprintf("%x", d.Bytes[:16])})
			}
		} else {
			first[ts] = d.Bytes
		}
	}
	// oracle 2: the server holds a record for every slot with a reading, with the right value, not banned
	snap := p.Srv.S.VerifSnapshot()
	held := map[uint32]uint64{}
	for _, sl := range snap.Reports[p.ID] {
		held[snap.ReportsOffset+sl.Index] = sl.Report.PowerOutput
	}
	for i, r := range j.Readings {
		ts := uint32(slotOf(i))
		want := c08Value(r)
		if j.FixedNow != 0 && int(ts)+432 < j.FixedNow {
			continue // older than what the server accepts: cannot be recovered, must only not get in the way
		}
		if r == "" {
			if _, okh := held[ts]; okh {
				rep.fail("record-without-reading", map[string]interface{}{"config": cfgDesc, "slot": ts})
			}
			continue
		}
		got, okh := held[ts]
		cls := readingClass(j, ts)
		switch {
		case !okh:
			rep.fail("not-recovered/"+cls+"/fate="+j.Fates[i]+"/early="+j.Early+"/between="+j.Between, map[string]interface{}{"config": cfgDesc, "slot": ts})
		case got == 1:
			rep.fail("own-slot-banned/"+cls, map[string]interface{}{"config": cfgDesc, "slot": ts})
		case got != want:
			rep.fail("wrong-value/"+cls, map[string]interface{}{"config": cfgDesc, "slot": ts, "server": got, "reading": want})
		}
		rep.Reasons[fmt.Sprintf("slot fate=%s early=%s between=%s", j.Fates[i], j.Early, j.Between)]++
		rep.Accepted++
	}
	if sig, what := p.Srv.compareState(); sig != "" {
		rep.fail("server-"+sig, what)
	}
	if !p.Cli.C.VerifTryLock() {
		rep.fail("client-lock-held", cfgDesc)
		poisoned = true
	}
	if len(rep.Samples) == 0 && len(p.Hub.Log) > 3 {
		rep.Samples = append(rep.Samples, fmt.Sprintf("%s: %d datagrams on the wire", cfgDesc, len(p.Hub.Log)))
	}
	return rep
}

func readingClassAt(j c08Job, ts uint32, c08Base int) string {
	i := int(ts) - c08Base
	if i < 0 || i >= len(j.Readings) {
		return "?"
	}
	switch r := j.Readings[i]; {
	case strings.HasPrefix(r, "-"):
		return "negative"
	case r == "10":
		return "sentinel2"
	case r == "abc":
		return "sentinel3"
	default:
		return "positive"
	}
}

func c08Value(r string) uint64 {
	switch r {
	case "5000":
		return 5000
	case "-3000":
		v := int64(-3000)
		return uint64(v)
	case "10":
		return 2
	case "abc":
		return 3
	case "70000":
		return 70000
	}
	// boundary readings of the 32-bit signed range (multiplier and divider are 1000/1000 in the test build)
	if v, err := strconv.ParseInt(r, 10, 64); err == nil {
		return uint64(v)
	}
	return 0
}

func init() {
	pool.Register("c08", func(data json.RawMessage) (interface{}, error) {
		var j c08Job
		if err := json.Unmarshal(data, &j); err != nil {
			return nil, err
		}
		return c08Run(j), nil
	})
	checks["C08"] = func(tier string) int {
		run := newRun("C08", tier, "fault_enumeration")
		readings := []string{"", "5000", "-3000", "10"}
		slots := 3
		if tier == "thorough" {
			readings = []string{"", "5000", "-3000", "10", "abc", "70000"}
			slots = 3
		}
		fates := []string{"deliver", "drop", "dup"}
		var jobs []interface{}
		var rec func(rs, fs []string)
		rec = func(rs, fs []string) {
			if len(rs) == slots {
				any := false
				for _, r := range rs {
					if r != "" {
						any = true
					}
				}
				if !any {
					return
				}
				for _, e := range []string{"none", "dialfail", "badreply", "ok-drop", "ok-deliver"} {
					for _, b := range []string{"none", "rotate", "restart"} {
						jobs = append(jobs, c08Job{Readings: append([]string(nil), rs...), Fates: append([]string(nil), fs...), Early: e, Between: b})
					}
				}
				return
			}
			for _, r := range readings {
				if r == "" {
					rec(append(rs, r), append(fs, "deliver"))
					continue
				}
				for _, f := range fates {
					rec(append(rs, r), append(fs, f))
				}
			}
		}
		rec(nil, nil)
		// dense runs: 18 consecutive slots starting at a byte boundary of the bitfield, exactly one (or no, or
		// two adjacent) original lost - full bitfield bytes next to a gap, gaps at every bit position
		const denseBase, denseN = 2096, 18
		for drop := -1; drop < denseN; drop++ {
			for _, second := range []int{-1, drop + 1} {
				if second >= denseN || (drop < 0 && second >= 0) {
					continue
				}
				var rs, fs []string
				for i := 0; i < denseN; i++ {
					rs = append(rs, []string{"5000", "-3000", "10"}[i%3])
					if i == drop || i == second {
						fs = append(fs, "drop")
					} else {
						fs = append(fs, "deliver")
					}
				}
				jobs = append(jobs, c08Job{Readings: rs, Fates: fs, Early: "none", Between: "none", Base: denseBase})
			}
		}
		// boundary family: readings at the edges of what 32 signed bits (the history format) can hold and at the
		// sentinel threshold, each lost once so that it has to be retransmitted from the history
		for _, v := range []string{"-2147483648", "-2147483647", "2147483647", "2147483646", "-24", "24", "-25", "65535", "65536", "-65536"} {
			for _, early := range []string{"none", "ok-drop"} {
				jobs = append(jobs, c08Job{Readings: []string{v, "5000"}, Fates: []string{"drop", "deliver"}, Early: early, Between: "none"})
				jobs = append(jobs, c08Job{Readings: []string{"5000", v}, Fates: []string{"deliver", "drop"}, Early: early, Between: "restart"})
			}
		}
		// revised rows: after the originals went out the meter's file says something else for a slot (an unparseable
		// half-written row completed, a number corrected, a number garbled); the original is lost or delivered
		for _, rv := range [][2]string{{"abc", "5000"}, {"5000", "6000"}, {"10", "5000"}, {"-3000", "abc"}, {"abc", "10"}, {"5000", "10"}} {
			for _, fate := range []string{"drop", "deliver"} {
				for _, early := range []string{"none", "ok-drop"} {
					jobs = append(jobs, c08Job{Readings: []string{rv[0], "5000"}, Revised: []string{rv[1], ""}, Fates: []string{fate, "deliver"}, Early: early, Between: "none"})
					jobs = append(jobs, c08Job{Readings: []string{"5000", rv[0]}, Revised: []string{"", rv[1]}, Fates: []string{"deliver", fate}, Early: early, Between: "none"})
				}
			}
		}
		// a long outage: 500 readings the server will never accept any more (older than now-432) sit in the history
		// in front of one recent reading whose datagram was lost; the round must still get to the recent one
		{
			var rs, fs []string
			var sl []int
			for t := 101; t <= 600; t++ { // the history of this family begins at slot 100
				rs, fs, sl = append(rs, "5000"), append(fs, "drop"), append(sl, t)
			}
			for _, recent := range []int{1000, 668} {
				jobs = append(jobs, c08Job{Readings: append(append([]string{}, rs...), "5000"), Fates: append(append([]string{}, fs...), "drop"), Slots: append(append([]int{}, sl...), recent), FixedNow: 1100, Early: "none", Between: "none"})
			}
		}
		// the device's own loop: readings present at start-up, a restart (with the newest / an older row revised or
		// not), then the sync round the report loop itself launches
		for _, rv := range [][]string{nil, {"", "3100"}, {"600", ""}, {"", "abc"}, {"", "", "3100"}} {
			rs := []string{"500", "3000"}
			if len(rv) == 3 {
				rs = []string{"500", "-3000", "3000"}
			}
			jobs = append(jobs, c08Job{Readings: rs, Revised: rv, Loop: true})
		}
		// wide family: the server clock stays at 1000 while the device has readings over the whole acceptance
		// range, the newest one AHEAD of the server clock; every subset of the older originals is lost
		for _, newest := range []int{1432, 1100, 1000} {
			slots := []int{568, 569, 600, 700, 999, newest}
			for mask := 0; mask < 32; mask++ {
				var rs, fs []string
				for i := range slots {
					rs = append(rs, "5000")
					if i < 5 && mask&(1<<i) != 0 {
						fs = append(fs, "drop")
					} else {
						fs = append(fs, "deliver")
					}
				}
				jobs = append(jobs, c08Job{Readings: rs, Fates: fs, Early: "none", Between: "none", Slots: slots, FixedNow: 1000})
			}
		}
		run.Assumption("loss, duplication and reordering are decided per datagram by the scripted network; readings fit 32 signed bits (the property's own restriction)")
		rc := runJobCheck(run, "c08", jobs, "every combination of per-slot reading {none, +5000, -3000, sentinel 2 (, sentinel 3, 70000)} x fate of the original datagram {delivered, dropped, duplicated} x earlier sync round {none, dial fails, malformed reply, ok with all retransmissions dropped, ok delivered} x {nothing, week rotation, server restart} before a final fault-free round on a real client and a real server; afterwards every datagram ever on the wire is re-delivered in reverse order; plus a boundary family (readings -2^31, -2^31+1, 2^31-1, 2^31-2, +-24, -25, 65535, +-65536 lost and retransmitted), plus a backlog of 500 readings older than the acceptance range in front of one recent lost reading, plus the report loop's own sync round after a device restart (readings stored at start-up, rows revised or not in between), plus revised rows (the file says something else for a slot after its original was sent: unparseable->number, number->other number, sentinel->number, number->unparseable), plus a wide family (server clock fixed, readings at now-432, now-431, now-400, now-300, now-1 and a newest reading at now / now+100 / now+432, every subset of the older originals lost), plus dense runs of 18 consecutive slots from a bitfield byte boundary with none / each single / each adjacent pair of originals lost; distinct = (fate, early round, in-between event) classes; executions = evaluations")
		return rc
	}
}
