package main

import (
	"bytes"
	"encoding/json"
	"fmt"
	"sort"
	"strings"
)

// opsArg parametrises the generic operation-history system.
type opsArg struct {
	Name string   `json:"name"`
	Init []string `json:"init"` // set-up operations applied before the history
	// Deep-pass options
	RestartCheck bool `json:"restart_check"` // restart;restart differential at every distinct state
	ArchiveCheck bool `json:"archive_check"` // download the archive at every distinct state and apply the C14 oracle to it
}

func opClassOf(op string) string {
	parts := strings.Split(op, ":")
	return parts[0]
}

// opsExec is the bfsSystem for operation histories on a real server.
func opsExec(raw json.RawMessage, hist []string, deep bool) *bfsResult {
	var a opsArg
	json.Unmarshal(raw, &a)
	res := &bfsResult{Expand: true}
	w, err := newOpsWorld(a.Name)
	if err != nil {
		res.fail("harness/setup", err.Error())
		res.Expand = false
		return res
	}
	defer w.finish(res)
	all := append(append([]string{}, a.Init...), hist...)
	for i, op := range all {
		r := w.apply(op)
		if r.Skipped {
			continue
		}
		// observers are NOT called after every operation (that would refresh any cache before it can go stale): the
		// alphabets contain an explicit "touch" operation, and every history ends with the light public comparison
		if op != "touch" && !r.Skipped {
			w.Dirty = true
		}
		if i == len(all)-1 && r.Sig == "" && !w.Poisoned {
			if sig, what := w.touch(w.M); sig != "" {
				r.Sig, r.Obs, r.Want = sig, what, "what the server holds"
			}
		}
		if r.Sig != "" {
			// A failure inside the set-up or a proper prefix was reported when that
			// prefix was the end of a history; only report the last step (or set-up).
			if i == len(all)-1 || i < len(a.Init) {
				res.fail(r.Sig+"/"+opClassOf(op), map[string]interface{}{"step": i, "op": op, "observed": r.Obs, "expected": r.Want, "detail": r.Detail})
			}
			res.Expand = false
			res.Key = "FAILED:" + strings.Join(all[:i+1], ";")
			return res
		}
	}
	last := "initial"
	if len(hist) > 0 {
		last = opClassOf(hist[len(hist)-1])
	}
	if sig, what := w.compareState(); sig != "" {
		res.fail(sig+"/after-"+last, what)
		res.Expand = false
		res.Key = "FAILED:" + strings.Join(all, ";")
		return res
	}
	if mu, smu := w.S.VerifTryLocks(); !mu || !smu {
		res.fail("lock-held/after-"+last, hist)
		res.Expand = false
	}
	var served []string
	for tso := range w.Served {
		served = append(served, fmt.Sprint(tso))
	}
	sort.Strings(served)
	var srvs []string
	for _, sv := range w.M.Servers {
		srvs = append(srvs, fmt.Sprintf("%x:%v:%d", sv.PublicKey[:3], sv.Banned, sv.HttpPort))
	}
	var migs []string
	for k, mg := range w.M.Migrations {
		migs = append(migs, fmt.Sprintf("%x>%x", k[:3], mg.NewGCA[:3]))
	}
	sort.Strings(migs)
	// The durable files are part of the state: two histories with equal in-memory state but different logs on
	// disk (e.g. reports of a since-banned device) have different futures as soon as the server restarts.
	var disk []string
	for _, f := range []string{"equipment-reports.dat", "equipment-authorizations.dat", "allDeviceStats.dat", "gcaPubKey.dat"} {
		b, _ := readFileMaybe(w.Dir, f)
		disk = append(disk, fmt.Sprintf("%d:%x", len(b), keccak(b)[:6]))
	}
	res.Key = fmt.Sprintf("%s|now=%d|servers=%v|migr=%v|disk=%v|armed=%s|changed-since-last-touch=%v|state-at-last-touch=%s", w.M.valueKey(), w.Now, srvs, migs, disk, w.Armed, w.Dirty, w.LastTouch)
	res.Outcome = fmt.Sprintf("devs=%d bans=%d off=%d arch=%d reg=%v", len(w.M.Devices), len(w.M.Bans), w.M.Offset, len(w.M.Archive), w.M.Registered)
	if !deep || !res.Expand {
		return res
	}
	// ---- deep pass: public observables, archive immutability, restart differential ----
	if sig, what := w.checkPublic(w.M); sig != "" {
		res.fail(sig+"/after-"+last, what)
		return res
	}
	if sig, what := w.checkArchive(); sig != "" {
		res.fail(sig+"/after-"+last, what)
		return res
	}
	if sig, what := w.checkServerList(); sig != "" {
		res.fail(sig+"/after-"+last, what)
		return res
	}
	if sig, what := w.checkRequests(); sig != "" {
		res.fail(sig+"/after-"+last, what)
		return res
	}
	if sig, what := w.heldWriteViolation(); sig != "" {
		res.fail(sig, what)
		return res
	}
	if a.ArchiveCheck {
		code, body := w.httpDo("GET", "/api/v1/archive", nil)
		if code != 200 {
			res.fail("archive-status/after-"+last, code)
			return res
		}
		if v := checkArchiveZip(w, body); v != nil {
			res.fail(v.Sig+"/after-"+last, v.Detail)
			return res
		}
		// on a quiescent server the archive holds the complete files
		files, _ := readZip(body)
		for _, f := range []string{"allDeviceStats.dat", "equipment-reports.dat", "equipment-authorizations.dat", "gcaPubKey.dat"} {
			if b, _ := readFileMaybe(w.Dir, f); !bytes.Equal(b, files[f]) {
				res.fail("archive-incomplete-at-rest/"+f+"/after-"+last, fmt.Sprintf("archived %d bytes of %d", len(files[f]), len(b)))
				return res
			}
		}
	}
	if a.RestartCheck {
		for round := 1; round <= 2; round++ {
			beforeOff := w.M.Offset
			r := w.apply("restart")
			if r.Sig != "" {
				res.fail(r.Sig+"/after-"+last, map[string]interface{}{"restart_round": round, "observed": r.Obs, "expected": r.Want})
				return res
			}
			w.M.restartVolatile()
			if sig, what := w.compareState(); sig != "" {
				res.fail("restart-"+sig+"/after-"+last, map[string]interface{}{"restart_round": round, "catch_up_rotations": (w.M.Offset - beforeOff) / mWeek, "what": what})
				return res
			}
			if sig, what := w.checkArchive(); sig != "" {
				res.fail("restart-"+sig+"/after-"+last, what)
				return res
			}
			if round == 2 && w.M.Offset != beforeOff {
				res.fail("restart-not-idempotent/after-"+last, "second restart rotated again")
				return res
			}
		}
		if sig, what := w.checkPublic(w.M); sig != "" {
			res.fail("restart-"+sig+"/after-"+last, what)
			return res
		}
	}
	return res
}

func init() { bfsSystems["ops"] = opsExec }
