package main

// Client world: one real client.Client on its own directory, talking through
// the scripted network (vnet) to real servers or scripted peers, under
// virtual time.

import (
	"encoding/binary"
	"fmt"
	"io"
	"net"
	"os"
	"path/filepath"
	"sync"
	"time"

	"github.com/glowlabs-org/gca-backend/client"
	"github.com/glowlabs-org/gca-backend/glow"

	"verifh/pool"
	"verifh/shim/vnet"
	"verifh/shim/vrand"
	"verifh/shim/vtime"
)

var cc = client.VerifConsts()

// ---- scripted network ----

type wireDatagram struct {
	To    string
	Bytes []byte
}

type netHub struct {
	mu    sync.Mutex
	UDP   map[string]func(b []byte) error     // address -> what happens to a datagram
	TCP   map[string]func() (net.Conn, error) // address -> connection factory
	Log   []wireDatagram                      // every datagram written by anyone
	Dials []string
}

func newHub() *netHub {
	h := &netHub{UDP: map[string]func([]byte) error{}, TCP: map[string]func() (net.Conn, error){}}
	vnet.SetDialer(h.dial)
	return h
}

func (h *netHub) dial(network, address string) (net.Conn, error, bool) {
	h.mu.Lock()
	h.Dials = append(h.Dials, network+":"+address)
	h.mu.Unlock()
	switch network {
	case "udp":
		f := h.UDP[address]
		return &vnet.DatagramConn{Remote: address, OnWrite: func(b []byte) error {
			h.mu.Lock()
			h.Log = append(h.Log, wireDatagram{address, b})
			h.mu.Unlock()
			if f != nil {
				return f(b)
			}
			return nil // nobody listens: UDP does not tell
		}}, nil, true
	case "tcp":
		f := h.TCP[address]
		if f == nil {
			return nil, fmt.Errorf("dial tcp %s: connection refused", address), true
		}
		c, err := f()
		return c, err, true
	}
	return nil, nil, false
}

// lazyConn answers the first Read with handler(request written so far).
type lazyConn struct {
	req     []byte
	reply   []byte
	done    bool
	handler func(req []byte) []byte
	// ReadErr, if set, is returned once the reply is exhausted instead of EOF.
	ReadErr error
	// Stall, if set, makes every Read wait until the channel is closed (a peer that accepts and stays silent).
	Stall chan struct{}
}

func (c *lazyConn) Write(b []byte) (int, error) { c.req = append(c.req, b...); return len(b), nil }
func (c *lazyConn) Read(b []byte) (int, error) {
	if c.Stall != nil {
		<-c.Stall
		return 0, fmt.Errorf("connection reset by peer")
	}
	if !c.done {
		c.done = true
		c.reply = c.handler(c.req)
	}
	if len(c.reply) == 0 {
		if c.ReadErr != nil {
			return 0, c.ReadErr
		}
		return 0, io.EOF
	}
	n := copy(b, c.reply)
	c.reply = c.reply[n:]
	return n, nil
}
func (c *lazyConn) Close() error                     { return nil }
func (c *lazyConn) LocalAddr() net.Addr              { return memAddr{} }
func (c *lazyConn) RemoteAddr() net.Addr             { return memAddr{} }
func (c *lazyConn) SetDeadline(time.Time) error      { return nil }
func (c *lazyConn) SetReadDeadline(time.Time) error  { return nil }
func (c *lazyConn) SetWriteDeadline(time.Time) error { return nil }

// serveReal connects address to the real sync handler of w.
func (h *netHub) serveReal(address string, w *srvWorld) {
	h.TCP[address] = func() (net.Conn, error) {
		return &lazyConn{handler: func(req []byte) []byte {
			reply, p := w.syncRaw(req)
			if p != "" {
				panic("server sync handler panicked: " + p)
			}
			return reply
		}}, nil
	}
}

// serveBytes connects address to a peer that answers every request with reply.
func (h *netHub) serveBytes(address string, reply func(req []byte) []byte) {
	h.TCP[address] = func() (net.Conn, error) { return &lazyConn{handler: reply}, nil }
}

// ---- client world ----

type cliConfig struct {
	Key           keyPair
	ShortID       uint32
	GCA           glow.PublicKey
	Servers       map[glow.PublicKey]client.GCAServer
	HistoryOffset uint32
	Energy        *string // nil = no file
	CT            *string // nil = no calibration file
}

type cliWorld struct {
	Dir  string
	C    *client.Client
	Cfg  cliConfig
	open bool
}

func writeClientDir(dir string, cfg cliConfig) {
	var kb [64]byte
	copy(kb[:32], cfg.Key.Pub[:])
	copy(kb[32:], cfg.Key.Priv[:])
	must(os.WriteFile(filepath.Join(dir, client.ClientKeyFile), kb[:], 0644))
	must(os.WriteFile(filepath.Join(dir, client.GCAPubKeyFile), cfg.GCA[:], 0644))
	raw, err := client.SerializeGCAServerMap(cfg.Servers)
	must(err)
	must(os.WriteFile(filepath.Join(dir, client.GCAServerMapFile), raw, 0644))
	var hb [4]byte
	binary.LittleEndian.PutUint32(hb[:], cfg.HistoryOffset)
	must(os.WriteFile(filepath.Join(dir, client.HistoryFile), hb[:], 0644))
	var sb [4]byte
	binary.LittleEndian.PutUint32(sb[:], cfg.ShortID)
	must(os.WriteFile(filepath.Join(dir, client.ShortIDFile), sb[:], 0644))
	if cfg.Energy != nil {
		must(os.WriteFile(filepath.Join(dir, cc.EnergyFile), []byte(*cfg.Energy), 0644))
	}
	if cfg.CT != nil {
		must(os.WriteFile(filepath.Join(dir, client.CTSettingsFile), []byte(*cfg.CT), 0644))
	}
}

// sendLoopPeriod is the sleep of the send loop with the scripted jitter (1 ms),
// which makes it distinguishable from the sync round's own sleeps.
func sendLoopPeriod() time.Duration { return cc.SendReportTime + time.Millisecond }

func scriptClientRandomness() {
	// randomTimeExtension reads an int64 and takes it modulo 4 (ms): answer 1.
	vrand.SetRead(func(p []byte) {
		for i := range p {
			p[i] = 0
		}
		if len(p) > 0 {
			p[0] = 1
		}
	})
	// server shuffles: identity permutation unless a check overrides it
	vrand.SetInt(func(max int64) int64 { return max - 1 })
}

func newClientWorld(cfg cliConfig) (*cliWorld, error) {
	dir := freshDir("cli")
	writeClientDir(dir, cfg)
	w := &cliWorld{Dir: dir, Cfg: cfg}
	return w, w.start()
}

func (w *cliWorld) start() error {
	before := vtime.CountPending(sendLoopPeriod())
	c, err := client.NewClient(w.Dir)
	if err != nil {
		return err
	}
	w.C = c
	w.open = true
	if !vtime.Real() && !vtime.WaitPending(sendLoopPeriod(), before+1, 10*time.Second) {
		return fmt.Errorf("client send loop did not park")
	}
	return nil
}

// tick runs one iteration of the send loop by firing its timer.
func (w *cliWorld) tick() error {
	fired, settled := vtime.Fire(sendLoopPeriod(), true, 10*time.Second)
	if !fired || !settled {
		return fmt.Errorf("send loop tick: fired=%v settled=%v", fired, settled)
	}
	return nil
}

func (w *cliWorld) Close() error {
	if !w.open {
		return nil
	}
	w.open = false
	err := w.C.Close()
	vtime.ReleaseSleeps()
	return err
}

func (w *cliWorld) Abandon() {
	pool.RequestRecycle()
	w.open = false
}

func (w *cliWorld) Restart() error {
	if err := w.Close(); err != nil {
		return err
	}
	return w.start()
}

func (w *cliWorld) Cleanup() { os.RemoveAll(w.Dir) }

func (w *cliWorld) setEnergy(content string) {
	must(os.WriteFile(filepath.Join(w.Dir, cc.EnergyFile), []byte(content), 0644))
}

// syncRound runs one whole sync round on a helper goroutine and fires the
// round's own sleeps (one per attempt) as they appear. It returns the
// round's result, or panicked != "" / hung=true.
func (w *cliWorld) syncRound(latest uint32) (ok bool, panicked string, hung bool) {
	type res struct {
		ok bool
		p  string
	}
	ch := make(chan res, 1)
	gidCh := make(chan int64, 1)
	go func() {
		gidCh <- goID()
		var r res
		r.p = safely(func() { r.ok = w.C.VerifSyncRound(latest) })
		ch <- r
	}()
	gid := <-gidCh
	deadline := time.Now().Add(20 * time.Second)
	for {
		select {
		case r := <-ch:
			return r.ok, r.p, false
		default:
		}
		if vtime.HasPendingGoid(gid) {
			vtime.FireGoid(gid)
			continue
		}
		if time.Now().After(deadline) {
			return false, "", true
		}
		time.Sleep(20 * time.Microsecond)
	}
}
