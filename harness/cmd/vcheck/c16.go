package main

// C16 - energy readings become report values by fixed rules, for every file
// content. Exhaustive enumeration of a finite CSV x calibration product on the
// real reader against an independently written rule.

import (
	"encoding/csv"
	"encoding/json"
	"fmt"
	"math"
	"strconv"
	"strings"

	"github.com/glowlabs-org/gca-backend/client"
	"github.com/glowlabs-org/gca-backend/glow"

	"verifh/pool"
)

type c16Job struct {
	Calib int  `json:"calib"`
	Shard int  `json:"shard"`
	N     int  `json:"n"`
	Rows3 bool `json:"rows3"`
}

type calibCase struct {
	name    string
	content *string
	ok      bool
	m, d    float64
}

func sp(s string) *string { return &s }

func c16Calibrations() []calibCase {
	return []calibCase{
		{"absent", nil, true, cc.EnergyMultiplierDefault, cc.EnergyDividerDefault},
		{"1000/1000", sp("1000\n1000\n"), true, 1000, 1000},
		{"-2000/1000", sp("-2000\n1000\n"), true, -2000, 1000},
		{"2.5/0.5 no trailing newline", sp("2.5\n0.5"), true, 2.5, 0.5},
		{"divider zero", sp("1000\n0\n"), true, 1000, 0},
		{"29/100 (ratio not representable in binary)", sp("29\n100\n"), true, 29, 100},
		{"1/3", sp("1\n3\n"), true, 1, 3},
		{"-7/10", sp("-7\n10\n"), true, -7, 10},
		{"abc", sp("abc\n1000\n"), false, 0, 0},
		{"one line", sp("1000\n"), false, 0, 0},
		{"empty", sp(""), false, 0, 0},
		{"second line malformed", sp("1000\nx\n"), false, 0, 0},
		{"both values on the first line", sp("2000 1000\n"), false, 0, 0},
		{"both values on the first line, then a second line", sp("2 000\n1000\n"), false, 0, 0},
		{"blank line between the values", sp("4\n\n2\n"), false, 0, 0},
		{"leading blank line", sp("\n4\n2\n"), false, 0, 0},
		{"tab separated on one line", sp("4\t2"), false, 0, 0},
		{"trailing space on the first line", sp("4 \n2\n"), false, 0, 0},
		{"CRLF line ends", sp("-2000\r\n1000\r\n"), true, -2000, 1000},
		{"three lines", sp("3\n4\n5\n"), true, 3, 4},
	}
}

// expected outputs of the reference rule: the row-skipping reading, and the
// reading that stops at the first row with fewer than two columns.
func c16Reference(content string, genesis int64, m, d float64) (skip, stop []client.EnergyRecord, loose map[int]bool) {
	loose = map[int]bool{}
	r := csv.NewReader(strings.NewReader(content))
	stopped := false
	for {
		rec, err := r.Read()
		if err != nil {
			break
		}
		ts, err := strconv.ParseInt(rec[0], 10, 64)
		if err != nil {
			continue
		}
		if ts < genesis {
			continue
		}
		if ts-genesis >= 1<<32 {
			continue // outside the stated domain; never generated
		}
		slot := uint32((ts - genesis) / 300)
		if len(rec) < 2 {
			stopped = true
			continue
		}
		var e uint64
		x, err := strconv.ParseFloat(rec[1], 64)
		switch {
		case err != nil:
			e = 3
		case math.Abs(x) < 24:
			e = 2
		default:
			v := m * x / d
			if math.IsNaN(v) || math.IsInf(v, 0) || math.Abs(v) >= 9.2e18 {
				loose[len(skip)] = true // value rule not asserted, only absence of a crash
			} else {
				e = uint64(int64(v))
			}
		}
		skip = append(skip, client.EnergyRecord{Timeslot: slot, Energy: e})
		if !stopped {
			stop = append(stop, client.EnergyRecord{Timeslot: slot, Energy: e})
		}
	}
	return
}

func recordsEqual(got, want []client.EnergyRecord, loose map[int]bool) bool {
	if len(got) != len(want) {
		return false
	}
	for i := range got {
		if got[i].Timeslot != want[i].Timeslot {
			return false
		}
		if !loose[i] && got[i].Energy != want[i].Energy {
			return false
		}
	}
	return true
}

func c16Rows(genesis int64) []string {
	tss := []string{fmt.Sprint(genesis - 1), fmt.Sprint(genesis), fmt.Sprint(genesis + 299), fmt.Sprint(genesis + 300), fmt.Sprint(genesis + 1<<32 - 1), "abc", ""}
	vals := []string{"0", "23.999", "24", "-24", "-23.999", "1e3", "-1e3", "2.5e9", "abc", "", "1e400", "NaN", "9.3e18", "24.9", "100", "-100", "300", "-90"}
	var rows []string
	for _, t := range tss {
		for _, v := range vals {
			rows = append(rows, t+","+v)
		}
	}
	return rows
}

func c16Run(j c16Job) *jobReport {
	rep := &jobReport{Reasons: map[string]int{}}
	resetGlobals()
	scriptClientRandomness()
	newHub()
	cal := c16Calibrations()[j.Calib]
	k := key("c16/client")
	cfg := cliConfig{Key: k, ShortID: 5, GCA: key("G1").Pub, HistoryOffset: 0, CT: cal.content,
		Servers: map[glow.PublicKey]client.GCAServer{key("server-S1").Pub: {Location: "10.0.0.1", HttpPort: 1, TcpPort: 2, UdpPort: 3}}}
	var w *cliWorld
	var err error
	if p := safely(func() { w, err = newClientWorld(cfg) }); p != "" {
		rep.fail("panic/new-client/calibration="+cal.name, p)
		return rep
	}
	if !cal.ok {
		rep.Evals++
		rep.Reasons["calibration refused"]++
		if err == nil {
			rep.fail("malformed-calibration-accepted/"+cal.name, "NewClient succeeded")
			w.Close()
			w.Cleanup()
		}
		return rep
	}
	if err != nil {
		rep.fail("valid-calibration-refused/"+cal.name, err.Error())
		return rep
	}
	defer func() {
		if p := safely(func() { w.Close() }); p != "" {
			rep.fail("close-panic", p)
		}
		w.Cleanup()
	}()
	st := w.C.VerifState()
	if st.Multiplier != cal.m || st.Divider != cal.d {
		rep.fail("calibration-misread/"+cal.name, fmt.Sprintf("multiplier %v divider %v, file says %v / %v", st.Multiplier, st.Divider, cal.m, cal.d))
		return rep
	}
	genesis := int64(glow.GenesisTime)
	rows := c16Rows(genesis)
	// file shapes
	shapes := []struct {
		name string
		mk   func(rows []string) string
	}{
		{"header", func(r []string) string { return "timestamp,energy (mWh)\n" + strings.Join(r, "\n") + "\n" }},
		{"no header", func(r []string) string { return strings.Join(r, "\n") + "\n" }},
		{"no trailing newline", func(r []string) string { return strings.Join(r, "\n") }},
		{"one-column first row", func(r []string) string {
			return fmt.Sprint(genesis+600) + "\n" + strings.Join(r, "\n") + "\n"
		}},
		{"one-column later row", func(r []string) string {
			return strings.Join(r, "\n") + "\n" + fmt.Sprint(genesis+600) + "\n"
		}},
		{"three columns", func(r []string) string {
			var o []string
			for _, x := range r {
				o = append(o, x+",extra")
			}
			return strings.Join(o, "\n") + "\n"
		}},
		{"quoted fields", func(r []string) string {
			var o []string
			for _, x := range r {
				p := strings.SplitN(x, ",", 2)
				o = append(o, `"`+p[0]+`","`+p[1]+`"`)
			}
			return strings.Join(o, "\n") + "\n"
		}},
		{"crlf", func(r []string) string { return strings.Join(r, "\r\n") + "\r\n" }},
	}
	var seqs [][]string
	seqs = append(seqs, nil)
	for _, a := range rows {
		seqs = append(seqs, []string{a})
	}
	for _, a := range rows {
		for _, b := range rows {
			seqs = append(seqs, []string{a, b})
		}
	}
	idx := 0
	for _, seq := range seqs {
		for _, sh := range shapes {
			idx++
			if idx%j.N != j.Shard {
				continue
			}
			content := sh.mk(seq)
			w.setEnergy(content)
			var got []client.EnergyRecord
			var rerr error
			if p := safely(func() { got, rerr = w.C.VerifReadEnergyFile() }); p != "" {
				rep.fail("panic/read/"+sh.name, map[string]interface{}{"calibration": cal.name, "file": content, "panic": firstLine(p)})
				w.Abandon()
				return rep
			}
			rep.Evals++
			if rerr != nil {
				rep.fail("read-error/"+sh.name, map[string]interface{}{"file": content, "err": rerr.Error()})
				continue
			}
			skip, stop, loose := c16Reference(content, genesis, cal.m, cal.d)
			if !recordsEqual(got, skip, loose) && !recordsEqual(got, stop, loose) {
				cls := "value"
				if len(got) != len(skip) && len(got) != len(stop) {
					cls = "row-count"
				}
				rep.fail("records-differ/"+cls+"/"+sh.name, map[string]interface{}{"calibration": cal.name, "file": content, "got": got, "want": skip})
			}
			rep.Reasons[fmt.Sprintf("%s/%d records", sh.name, len(skip))]++
			if len(skip) > 0 {
				rep.Accepted++
			}
			if len(rep.Samples) < 2 && len(skip) == 2 {
				rep.Samples = append(rep.Samples, fmt.Sprintf("calibration %s, %q -> %v", cal.name, content, got))
			}
		}
	}
	return rep
}

func init() {
	pool.Register("c16", func(data json.RawMessage) (interface{}, error) {
		var j c16Job
		if err := json.Unmarshal(data, &j); err != nil {
			return nil, err
		}
		return c16Run(j), nil
	})
	checks["C16"] = func(tier string) int {
		run := newRun("C16", tier, "exploration")
		var jobs []interface{}
		shards := 8
		for c := range c16Calibrations() {
			for s := 0; s < shards; s++ {
				jobs = append(jobs, c16Job{Calib: c, Shard: s, N: shards})
			}
		}
		run.Assumption("timestamps at or beyond genesis+2^32 seconds are outside the stated domain and not generated; for NaN/Inf/overflowing scaled values only the absence of a crash is asserted")
		return runJobCheck(run, "c16", jobs, "all CSV files of 0..2 rows from 7 timestamps x 18 readings in 8 shapes (header, none, no trailing newline, one-column first/later row, three columns, quoted, CRLF) x 20 calibration settings (incl. ratios that are not representable in binary, where m*x/d and (m/d)*x differ), read by the real reader of a real client; distinct = (shape, number of records) x calibration; non-trivial = files that yield at least one record")
	}
}

var _ = json.Marshal
