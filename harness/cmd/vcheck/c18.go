package main

// C18 - event log bounded, keeps the newest, never panics.
// Explicit-state search over operation histories on the real EventLogger
// under virtual time, compared step by step with a list model.

import (
	"fmt"
	"sort"
	"strings"
	"time"

	"github.com/glowlabs-org/gca-backend/glow"

	"verifh/ev"
	"verifh/shim/vtime"
)

type elEntry struct {
	line string
	ups  []time.Duration // virtual offsets
}

type elModel struct {
	expiry     time.Duration
	max, maxLn int
	entries    []*elEntry
}

func (m *elModel) size() int {
	n := 0
	for _, e := range m.entries {
		n += 2 * len(e.line)
	}
	return n
}

func (m *elModel) expire(t time.Duration) {
	cut := t - m.expiry
	var keep []*elEntry
	for _, e := range m.entries {
		i := 0
		for i < len(e.ups) && e.ups[i] < cut {
			i++
		}
		e.ups = e.ups[i:]
		if len(e.ups) > 0 {
			keep = append(keep, e)
		}
	}
	m.entries = keep
}

func (m *elModel) printf(now time.Duration, line string) {
	m.expire(now)
	if len(line) > m.maxLn {
		line = line[:m.maxLn]
	}
	need := 2 * len(line)
	if need > m.max {
		return
	}
	for _, e := range m.entries {
		if e.line == line {
			e.ups = append(e.ups, now)
			return
		}
	}
	for need+m.size() > m.max {
		// evict the least recently updated
		oi := 0
		for i, e := range m.entries {
			if e.ups[len(e.ups)-1] < m.entries[oi].ups[len(m.entries[oi].ups)-1] {
				oi = i
			}
		}
		m.entries = append(m.entries[:oi], m.entries[oi+1:]...)
	}
	m.entries = append(m.entries, &elEntry{line: line, ups: []time.Duration{now}})
}

func (m *elModel) order() []string {
	es := append([]*elEntry(nil), m.entries...)
	sort.SliceStable(es, func(i, j int) bool { return es[i].ups[len(es[i].ups)-1] < es[j].ups[len(es[j].ups)-1] })
	var out []string
	for _, e := range es {
		out = append(out, e.line)
	}
	return out
}

func (m *elModel) key(now time.Duration) string {
	es := append([]*elEntry(nil), m.entries...)
	sort.Slice(es, func(i, j int) bool { return es[i].line < es[j].line })
	var sb strings.Builder
	for _, e := range es {
		sb.WriteString(e.line)
		sb.WriteByte(':')
		for _, u := range e.ups {
			fmt.Fprintf(&sb, "%d,", int64(now-u))
		}
		sb.WriteByte(';')
	}
	return sb.String()
}

type elConfig struct {
	Expiry       time.Duration
	Max, MaxLine int
}

// lines: empty, short, three of exactly the line limit, one whose two-byte character straddles the limit (the cut
// falls inside it), one whose bytes beyond the limit are all UTF-8 continuation bytes (no character boundary follows)
var elLines = []string{"", "a", "aaaaa", "bbbbb", "ccccc", "dddd\u00e9d", "eeeee\x80\x80\x80\x80\x80"}

func c18Ops(cfg elConfig) []string {
	var ops []string
	for i := range elLines {
		ops = append(ops, fmt.Sprintf("p%d", i))
	}
	ops = append(ops, "a1", "aE-", "aE", "aE+", "x0", "xE", "xE+", "xpast", "dump")
	return ops
}

// c18Exec runs a history on a fresh real logger and model; it returns the
// canonical key and whether the run was clean.
func c18Exec(run *ev.Run, cfg elConfig, hist []string) (string, bool) {
	vtime.SetOffset(0)
	l := glow.NewEventLogger(cfg.Expiry, cfg.Max, cfg.MaxLine)
	m := &elModel{expiry: cfg.Expiry, max: cfg.Max, maxLn: cfg.MaxLine}
	clean := true
	fail := func(sig string, what string) {
		clean = false
		run.Violation(sig, map[string]interface{}{"config": cfg, "history": hist, "what": what})
	}
	for step, op := range hist {
		var panicked interface{}
		func() {
			defer func() { panicked = recover() }()
			switch {
			case op[0] == 'p':
				i := int(op[1] - '0')
				vtime.Advance(1) // distinct stamps: ties would make eviction order arbitrary
				now := vtime.Offset()
				l.Printf("%s", elLines[i])
				m.printf(now, elLines[i])
			case op == "a1":
				vtime.Advance(1)
			case op == "aE-":
				vtime.Advance(cfg.Expiry - 1)
			case op == "aE":
				vtime.Advance(cfg.Expiry)
			case op == "aE+":
				vtime.Advance(cfg.Expiry + 1)
			case op[0] == 'x':
				now := vtime.Offset()
				t := now
				switch op {
				case "xE":
					t = now + cfg.Expiry
				case "xE+":
					t = now + cfg.Expiry + 1
				case "xpast":
					t = now - 10*cfg.Expiry
				}
				l.ExpireLogs(time.Unix(vtime.Epoch, 0).Add(t))
				m.expire(t)
			case op == "dump":
				// checked below for every step anyway
			}
		}()
		if panicked != nil {
			fail(fmt.Sprintf("panic/%s", opClass(op)), fmt.Sprintf("step %d (%s) panicked: %v", step, op, panicked))
			return "PANIC:" + strings.Join(hist, " "), false
		}
		if step != len(hist)-1 {
			// Every proper prefix was itself a checked transition of the
			// breadth-first search; only the last step needs observing.
			continue
		}
		// Observe through the public API (this also expires at the current time).
		now := vtime.Offset()
		var mp map[string][]time.Time
		var order []string
		func() {
			defer func() { panicked = recover() }()
			mp, order = l.DumpLogEntries()
		}()
		if panicked != nil {
			fail("panic/dump", fmt.Sprintf("DumpLogEntries after step %d (%s) panicked: %v", step, op, panicked))
			return "PANIC:" + strings.Join(hist, " "), false
		}
		m.expire(now)
		// bound
		total := 0
		for k := range mp {
			total += 2 * len(k)
			if len(k) > cfg.MaxLine {
				fail("line-limit", fmt.Sprintf("stored line %q longer than limit %d", k, cfg.MaxLine))
			}
		}
		if total > cfg.Max {
			fail("bound-exceeded", fmt.Sprintf("stored size %d > max %d after step %d", total, cfg.Max, step))
		}
		wantOrder := m.order()
		if strings.Join(order, "|") != strings.Join(wantOrder, "|") || len(mp) != len(m.entries) {
			fail("content-differs/"+opClass(op), fmt.Sprintf("after step %d (%s): dump order %q, model %q", step, op, order, wantOrder))
			return "DIVERGED:" + strings.Join(hist, " "), false
		}
		for _, e := range m.entries {
			got := mp[e.line]
			if len(got) != len(e.ups) {
				fail("timestamps-differ", fmt.Sprintf("line %q has %d stamps, model %d", e.line, len(got), len(e.ups)))
				return "DIVERGED:" + strings.Join(hist, " "), false
			}
			for i := range got {
				if got[i].Sub(time.Unix(vtime.Epoch, 0)) != e.ups[i] {
					fail("timestamps-differ", fmt.Sprintf("line %q stamp %d differs", e.line, i))
				}
			}
		}
		st := l.VerifState()
		if st.SizeCounter != m.size() {
			fail("accounting-inexact", fmt.Sprintf("after step %d (%s): running size counter %d, stored lines need %d", step, op, st.SizeCounter, m.size()))
			return "DIVERGED:" + strings.Join(hist, " "), false
		}
	}
	// scalar and slice fields of the logger itself are part of the key (maps are not rendered: their content is what the model mirrors)
	return m.key(vtime.Offset()) + "|" + hiddenState(l, vtime.Now()), clean
}

func opClass(op string) string {
	switch op[0] {
	case 'p':
		return "printf"
	case 'x':
		return "expire"
	case 'a':
		return "advance"
	}
	return op
}

func init() {
	checks["C18"] = func(tier string) int {
		run := newRun("C18", tier, "model_checking")
		cfgs := []elConfig{{10 * time.Second, 20, 5}, {10 * time.Second, 8, 5}, {10 * time.Second, 30, 5}, {10 * time.Second, 1000, 100}, {10 * time.Second, 1, 5}}
		depth := 5
		cap := 400000
		if tier == "thorough" {
			depth = 7
			cap = 6000000
		}
		states, trans := 0, 0
		for _, cfg := range cfgs {
			cfg := cfg
			ops := c18Ops(cfg)
			st := bfsInProc(run, depth, cap, func([]string) []string { return ops }, func(h []string) (string, bool) {
				k, ok := c18Exec(run, cfg, h)
				return k, ok
			})
			states += st.States
			trans += st.Transitions
			if st.Capped {
				run.NotExhaustive(fmt.Sprintf("state cap %d hit for config %+v at depth %d", cap, cfg, st.MaxDepth))
			}
			run.Sample(map[string]interface{}{"config": fmt.Sprintf("%+v", cfg), "states": st.States, "transitions": st.Transitions, "depth": st.MaxDepth})
		}
		run.Sample([]string{"p2", "p3", "aE+", "p4", "dump"})
		run.Coverage["states"] = states
		run.Coverage["transitions"] = trans
		run.Coverage["traces_validated_against_impl"] = trans
		run.Coverage["evaluations"] = trans
		run.Coverage["distinct_nontrivial"] = states
		run.Coverage["rule"] = "BFS over histories of Printf(7 lines)/advance(1ns,E-1,E,E+1)/ExpireLogs(4 cuts)/Dump on the real EventLogger under virtual time; distinct = canonical model states (entries with stamps relative to the clock); every transition executed on the real object and compared with the list model (dump map, dump order, size counter)"
		run.Coverage["depth"] = depth
		run.Coverage["configs"] = len(cfgs)
		run.Assumption("time stamps of distinct Printf calls are distinct (each Printf is preceded by a 1ns advance); ties make eviction order legitimately arbitrary")
		return run.Finish()
	}
}
