package main

import (
	"strings"

	"verifh/ev"
)

// bfsInProc is the explicit-state search used for objects that are cheap to
// rebuild: a state is the shortest operation list reaching it, a successor is
// a fresh instance + replay + one more operation, states are deduplicated by
// the canonical key exec returns. exec checks every step against the model
// and reports violations itself; expand=false stops expansion below a state.
type bfsStats struct {
	States, Transitions, MaxDepth int
	Capped                        bool
}

func bfsInProc(run *ev.Run, maxDepth, stateCap int, ops func(hist []string) []string, exec func(hist []string) (key string, expand bool)) bfsStats {
	var st bfsStats
	seen := map[string]struct{}{}
	k0, _ := exec(nil)
	seen[k0] = struct{}{}
	frontier := [][]string{nil}
	for depth := 0; depth < maxDepth && len(frontier) > 0; depth++ {
		var next [][]string
		for _, h := range frontier {
			for _, op := range ops(h) {
				nh := append(append(make([]string, 0, len(h)+1), h...), op)
				key, expand := exec(nh)
				st.Transitions++
				if _, ok := seen[key]; ok {
					continue
				}
				seen[key] = struct{}{}
				if len(seen)%50000 == 0 {
					run.Sample(strings.Join(nh, " "))
				}
				if expand {
					next = append(next, nh)
				}
				if stateCap > 0 && len(seen) >= stateCap {
					st.Capped = true
				}
			}
			if st.Capped {
				break
			}
		}
		st.MaxDepth = depth + 1
		if st.Capped {
			break
		}
		frontier = next
	}
	st.States = len(seen)
	return st
}
