package main

import (
	"fmt"
	"os"
	"runtime"
	"strings"
	"time"

	"verifh/ev"
)

// inProcStepTimeout bounds one transition of an in-process search. Transitions take microseconds; one that is
// still running after this long, with a function of the repository on the stack of a running goroutine, does
// not return (an endless loop cannot be interrupted from outside, so the search stops there).
const inProcStepTimeout = 90 * time.Second

func guardedExec(run *ev.Run, exec func(hist []string) (string, bool), h []string) (string, bool) {
	type res struct {
		key    string
		expand bool
	}
	ch := make(chan res, 1)
	go func() {
		k, e := exec(h)
		ch <- res{k, e}
	}()
	select {
	case r := <-ch:
		return r.key, r.expand
	case <-time.After(inProcStepTimeout):
	}
	buf := make([]byte, 1<<20)
	buf = buf[:runtime.Stack(buf, true)]
	// the goroutine that is still executing repository code
	witness := ""
	for _, g := range strings.Split(string(buf), "\n\n") {
		if strings.Contains(g, "glowlabs-org/gca-backend/") && (strings.Contains(g, "[running]") || strings.Contains(g, "[runnable]")) {
			witness = g
			break
		}
	}
	if witness == "" {
		fmt.Println("HARNESS ERROR: a transition did not finish within", inProcStepTimeout, "and no goroutine is running repository code")
		run.Count("harness_errors", 1)
		run.NotExhaustive("a transition timed out without a witness (inconclusive)")
		run.Finish()
		os.Exit(3)
	}
	run.Violation("operation-does-not-return/"+panicSite(witness), map[string]interface{}{"history": h, "running_for": inProcStepTimeout.String(), "goroutine": tailStr(witness, 3000)})
	run.NotExhaustive("the search stopped at an operation that does not return")
	os.Exit(run.Finish())
	return "", false
}

// bfsInProc is the explicit-state search used for objects that are cheap to
// rebuild: a state is the shortest operation list reaching it, a successor is
// a fresh instance + replay + one more operation, states are deduplicated by
// the canonical key exec returns. exec checks every step against the model
// and reports violations itself; expand=false stops expansion below a state.
type bfsStats struct {
	States, Transitions, MaxDepth int
	Capped                        bool
}

func bfsInProc(run *ev.Run, maxDepth, stateCap int, ops func(hist []string) []string, exec func(hist []string) (key string, expand bool)) bfsStats {
	var st bfsStats
	seen := map[string]struct{}{}
	k0, _ := guardedExec(run, exec, nil)
	seen[k0] = struct{}{}
	frontier := [][]string{nil}
	for depth := 0; depth < maxDepth && len(frontier) > 0; depth++ {
		var next [][]string
		for _, h := range frontier {
			for _, op := range ops(h) {
				nh := append(append(make([]string, 0, len(h)+1), h...), op)
				key, expand := guardedExec(run, exec, nh)
				st.Transitions++
				if _, ok := seen[key]; ok {
					continue
				}
				seen[key] = struct{}{}
				if len(seen)%50000 == 0 {
					run.Sample(strings.Join(nh, " "))
				}
				if expand {
					next = append(next, nh)
				}
				if stateCap > 0 && len(seen) >= stateCap {
					st.Capped = true
				}
			}
			if st.Capped {
				break
			}
		}
		st.MaxDepth = depth + 1
		if st.Capped {
			break
		}
		frontier = next
	}
	st.States = len(seen)
	return st
}
