package main

import (
	"encoding/json"
	"fmt"
	"os"
)

func init() {
	checks["debug20"] = func(tier string) int {
		rep := c20Run(c20Job{Part: "high", Arg: []int{100, 432}})
		b, _ := json.MarshalIndent(rep, "", " ")
		fmt.Println(string(b))
		return 0
	}
	checks["debug05"] = func(tier string) int {
		var h []string
		json.Unmarshal([]byte(os.Getenv("HIST")), &h)
		rep := c05Run(c05Job{h})
		b, _ := json.MarshalIndent(rep, "", " ")
		fmt.Println(string(b))
		return 0
	}
}
