package main

import (
	"encoding/json"
	"fmt"
	"os"

	"verifh/ev"
	"verifh/pool"
	"verifh/vsched"
)

// replaySpec makes a violation re-executable: the pool job kind and payload.
type replaySpec struct {
	Kind string          `json:"kind"`
	Job  json.RawMessage `json:"job"`
}

func mkReplay(kind string, job interface{}) replaySpec {
	b, _ := json.Marshal(job)
	return replaySpec{kind, b}
}

// exploreOneJob re-runs exactly one schedule of a scenario.
type exploreOneJob struct {
	Scenario string          `json:"scenario"`
	Arg      json.RawMessage `json:"arg"`
	Schedule []int           `json:"schedule"`
}

func init() {
	pool.Register("explore1", func(data json.RawMessage) (interface{}, error) {
		var j exploreOneJob
		if err := json.Unmarshal(data, &j); err != nil {
			return nil, err
		}
		mk := scenarios[j.Scenario]
		if mk == nil {
			return nil, fmt.Errorf("unknown scenario %q", j.Scenario)
		}
		sc := mk(j.Arg)
		diverged := ""
		x := sc.Run(func(step int, enabled []int, running int, runningEnabled bool) int {
			if step < len(j.Schedule) {
				if j.Schedule[step] >= len(enabled) {
					diverged = fmt.Sprintf("step %d: choice %d of %v", step, j.Schedule[step], enabled)
					return 0
				}
				return j.Schedule[step]
			}
			return 0
		})
		out := &jobReport{}
		if diverged != "" {
			out.fail("harness/replay-diverged", diverged)
		}
		for _, v := range x.Violations {
			out.fail(v.Sig, v.Detail)
		}
		if x.HarnessErr != "" {
			out.fail("harness/"+x.HarnessErr, nil)
		}
		return out, nil
	})
}

// sigsOf extracts violation signatures from a job result of any kind.
func sigsOf(kind string, r pool.Result) []string {
	var out []string
	if r.Panic != "" {
		return []string{"panic/" + kind + "/" + firstLine(r.Panic)}
	}
	if r.Err == "worker died" {
		if sig, ok := processDeath(r.Dump); ok {
			return []string{sig}
		}
	}
	if r.Timeout || r.Err != "" {
		return nil
	}
	var probe struct {
		Violations []vio `json:"violations"`
	}
	json.Unmarshal(r.Data, &probe)
	for _, v := range probe.Violations {
		out = append(out, v.Sig)
	}
	return out
}

// confirmer returns the function installed as ev.Run.Confirm.
func confirmer() func(replay interface{}) []string {
	return func(replay interface{}) []string {
		b, _ := json.Marshal(replay)
		var spec replaySpec
		if json.Unmarshal(b, &spec) != nil || spec.Kind == "" {
			return nil
		}
		p := pool.New(1)
		var job interface{}
		json.Unmarshal(spec.Job, &job)
		res := p.Map(spec.Kind, []interface{}{job}, nil)
		return sigsOf(spec.Kind, res[0])
	}
}

func newRun(prop, tier, level string) *ev.Run {
	r := ev.NewRun(prop, tier, level)
	r.Confirm = confirmer()
	return r
}

// replay re-executes one recorded violation in this process and prints what it produced.
func replay(path string) int {
	b, err := os.ReadFile(path)
	if err != nil {
		fmt.Fprintln(os.Stderr, err)
		return 3
	}
	var rec struct {
		Property  string `json:"property"`
		Signature string `json:"signature"`
		Detail    struct {
			Replay replaySpec `json:"replay"`
		} `json:"detail"`
	}
	if err := json.Unmarshal(b, &rec); err != nil {
		fmt.Fprintln(os.Stderr, err)
		return 3
	}
	if rec.Detail.Replay.Kind == "" {
		fmt.Printf("violation %s of %s carries no replay object; recorded detail:\n%s\n", rec.Signature, rec.Property, b)
		return 0
	}
	fmt.Printf("replaying %s %s: job kind %q\n  %s\n", rec.Property, rec.Signature, rec.Detail.Replay.Kind, rec.Detail.Replay.Job)
	p := pool.New(1)
	var job interface{}
	json.Unmarshal(rec.Detail.Replay.Job, &job)
	res := p.Map(rec.Detail.Replay.Kind, []interface{}{job}, nil)
	sigs := sigsOf(rec.Detail.Replay.Kind, res[0])
	fmt.Printf("signatures produced: %q\n", sigs)
	for _, s := range sigs {
		if s == rec.Signature {
			fmt.Printf("REPRODUCED %s\n%s\n", s, tailStr(string(res[0].Data), 3000))
			return 1
		}
	}
	fmt.Println("not reproduced on the current tree")
	return 0
}

var _ = vsched.Options{}
