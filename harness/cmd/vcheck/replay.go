package main

import (
	"encoding/json"
	"fmt"
	"os"
)

type replayFn func(detail json.RawMessage) int

var replays = map[string]replayFn{}

func replay(path string) int {
	b, err := os.ReadFile(path)
	if err != nil {
		fmt.Fprintln(os.Stderr, err)
		return 3
	}
	var r struct {
		Property  string          `json:"property"`
		Signature string          `json:"signature"`
		Detail    json.RawMessage `json:"detail"`
	}
	if err := json.Unmarshal(b, &r); err != nil {
		fmt.Fprintln(os.Stderr, err)
		return 3
	}
	f := replays[r.Property]
	if f == nil {
		fmt.Printf("no replayer for %s; recorded detail:\n%s\n", r.Property, r.Detail)
		return 0
	}
	return f(r.Detail)
}
