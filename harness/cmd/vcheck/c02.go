package main

// C02 - one report per device-timeslot; equivocation / over-capacity bans.
// Breadth-first search to closure over report histories on the real server;
// every transition is compared with the set-based rule of the property, with
// the reference model, and through all three public observables.

import (
	"encoding/binary"
	"encoding/json"
	"fmt"
	"sort"
	"strings"

	"github.com/glowlabs-org/gca-backend/glow"

	"verifh/ev"
	"verifh/pool"
)

type c02Arg struct {
	Slots map[string][]int `json:"slots"` // device name -> slot numbers (relative to now)
	// Rotations forced before the history: the window offset is 2016*Rotations, the clock stands 100 slots into the window
	Rotations int `json:"rotations"`
}

const c02Now = 100

var c02Variants = []string{"val", "oth", "resig", "lim", "lim1", "neg", "neg2", "max63"}

type c02Dev struct {
	name  string
	id    uint32
	k     keyPair
	limit uint64
	val   uint64
}

func c02Devices() map[string]c02Dev {
	return map[string]c02Dev{
		"A": {"A", 1, key("devA"), 1350, 500},
		"B": {"B", 2, key("devB"), 9, 5},
		// capacity 2^64-1 ("unlimited"): 1.35 x capacity does not fit 64 bits; no non-negative report is over capacity
		"C": {"C", 4, key("devC"), 1<<63 - 1, 500},
		// the largest short id (the value a "no device yet" marker would have), ordinary capacity 1000
		"D": {"D", 1<<32 - 1, key("devD"), 1350, 500},
	}
}

var c02Cache = map[string][]byte{}

func c02Datagram(dev c02Dev, base uint32, slot int, variant string) []byte {
	ck := fmt.Sprintf("%s/%d/%d/%s", dev.name, base, slot, variant)
	if b, ok := c02Cache[ck]; ok {
		return b
	}
	ts := base + uint32(c02Now+slot)
	var p uint64
	switch variant {
	case "val", "resig":
		p = dev.val
	case "oth":
		p = dev.val + 1
	case "lim":
		p = dev.limit
	case "lim1":
		p = dev.limit + 1
	case "neg":
		p = 1<<63 + 5
	case "neg2":
		p = 1<<64 - 300
	case "max63":
		p = 1<<63 - 1
	}
	var b []byte
	if variant == "resig" {
		sig := altSign(refReportSigningBytes(dev.id, ts, p), dev.k.Priv, 1)
		b = refReportBytes(dev.id, ts, p, sig)
	} else {
		b = signedReport(dev.id, ts, p, dev.k.Priv)
	}
	c02Cache[ck] = b
	return b
}

// c02Expected is the rule of the property as a function of the SET of
// distinct valid reports received for one slot.
func c02Expected(set map[string][]byte, limit uint64) uint64 {
	if len(set) == 0 {
		return 0
	}
	var only uint64
	for _, b := range set {
		p := binary.LittleEndian.Uint64(b[8:16])
		if p < 1<<63 && p > limit {
			return 1
		}
		only = p
	}
	if len(set) >= 2 {
		return 1
	}
	return only
}

func c02Ops(a c02Arg) []string {
	var ops []string
	var names []string
	for n := range a.Slots {
		names = append(names, n)
	}
	sort.Strings(names)
	for _, n := range names {
		for _, s := range a.Slots[n] {
			for _, v := range c02Variants {
				ops = append(ops, fmt.Sprintf("r:%s:%d:%s", n, s, v))
			}
		}
	}
	return ops
}

func c02Exec(raw json.RawMessage, hist []string, deep bool) *bfsResult {
	res := &bfsResult{Expand: true}
	w, err := newStdWorld("c02")
	if err != nil {
		res.fail("harness/setup", err.Error())
		return res
	}
	poisoned := false
	defer func() {
		if poisoned {
			w.Abandon()
			return
		}
		if p := safely(func() { w.Close() }); p != "" {
			res.fail("close-panic", p)
		}
		w.Cleanup()
	}()
	var a c02Arg
	json.Unmarshal(raw, &a)
	w.setNow(c02Now)
	for i := 0; i < a.Rotations; i++ {
		w.S.VerifRotate()
		w.M.rotate()
	}
	base := uint32(a.Rotations) * mWeek
	w.setNow(base + c02Now)
	devs := c02Devices()
	for name, capa := range map[string]uint64{"C": 1<<64 - 1, "D": 1000} {
		if _, ok := a.Slots[name]; !ok {
			continue
		}
		if code, out := w.doAuthorize(w.signAuth(authFor(devs[name].id, devs[name].k, capa), w.GCA.Priv)); code != 200 || out != authAdded {
			res.fail("harness/setup", fmt.Sprint("authorization of device ", name, " answered ", code))
			return res
		}
	}
	sets := map[string]map[string][]byte{} // "dev/slot" -> distinct datagrams received
	first := map[string]string{}
	for i, op := range hist {
		var dn, v string
		var slot int
		parts := strings.Split(op, ":")
		dn, v = parts[1], parts[3]
		fmt.Sscan(parts[2], &slot)
		d := devs[dn]
		dg := c02Datagram(d, base, slot, v)
		if p := safely(func() { w.S.VerifInjectDatagram(dg) }); p != "" {
			poisoned = true
			res.fail("panic/report/"+v, map[string]interface{}{"step": i, "op": op, "panic": p})
			res.Expand = false
			return res
		}
		w.M.datagram(dg, w.Now)
		sk := fmt.Sprintf("%s/%d", dn, slot)
		if sets[sk] == nil {
			sets[sk] = map[string][]byte{}
			first[sk] = v
		}
		sets[sk][string(dg)] = dg
	}
	// state against the reference model
	snap := w.S.VerifSnapshot()
	got, err := snapValueKey(snap)
	if err != nil {
		res.fail("state/inconsistent", err.Error())
		res.Expand = false
		return res
	}
	last := "initial"
	if len(hist) > 0 {
		last = strings.Split(hist[len(hist)-1], ":")[3]
	}
	if want := w.M.valueKey(); got != want {
		res.fail("slot-value-differs/after-"+last, map[string]interface{}{"diff": firstDiff(got, want)})
		res.Expand = false
		return res
	}
	// the set-based rule, independently of the model's bookkeeping
	var keyParts []string
	for sk, set := range sets {
		var dn string
		var slot int
		fmt.Sscanf(strings.Replace(sk, "/", " ", 1), "%s %d", &dn, &slot)
		d := devs[dn]
		want := c02Expected(set, d.limit)
		var gotv uint64
		for _, sl := range snap.Reports[d.id] {
			if sl.Index == uint32(c02Now+slot) {
				gotv = sl.Report.PowerOutput
			}
		}
		if gotv != want {
			res.fail("set-rule-differs/after-"+last, map[string]interface{}{"slot": sk, "published": gotv, "rule": want, "reports_received": len(set)})
			res.Expand = false
		}
		state := first[sk]
		if want == 1 {
			state = "banned"
		}
		keyParts = append(keyParts, sk+"="+state)
	}
	sort.Strings(keyParts)
	res.Key = strings.Join(keyParts, ",")
	res.Outcome = res.Key
	if !res.Expand || !deep {
		return res
	}
	if sig, what := w.checkPublic(w.M); sig != "" {
		res.fail(sig+"/after-"+last, what)
		res.Expand = false
	}
	if mu, smu := w.S.VerifTryLocks(); !mu || !smu {
		res.fail("lock-held", hist)
	}
	// long downtime: the server is stopped, the clock moves more than a window past the offset, the server starts
	// again (loading the saved reports, then catching up with rotations). What gets published for the week the
	// reports fell in must still follow the rule.
	w.setNow(base + c02Now + 4100)
	if err := w.Restart(); err != nil {
		res.fail("restart-after-downtime-fails", err.Error())
		poisoned = true
		return res
	}
	w.M.restartVolatile()
	for i := 0; i < 4 && w.M.Offset < w.S.VerifSnapshot().ReportsOffset; i++ {
		w.M.rotate()
	}
	if sig, what := w.compareState(); sig != "" {
		res.fail("after-downtime/"+sig+"/after-"+last, what)
		return res
	}
	if sig, what := w.checkPublic(w.M); sig != "" {
		res.fail("after-downtime/"+sig+"/after-"+last, what)
		return res
	}
	code, st, _ := w.stats(fmt.Sprint(base))
	if code != 200 {
		res.fail("after-downtime/archived-week-not-served", code)
		return res
	}
	for sk, set := range sets {
		var dn string
		var slot int
		fmt.Sscanf(strings.Replace(sk, "/", " ", 1), "%s %d", &dn, &slot)
		d := devs[dn]
		want := c02Expected(set, d.limit)
		idx := c02Now + slot
		if idx < 0 || idx >= mWeek {
			continue
		}
		for _, dev := range st.Devices {
			if dev.PublicKey == d.k.Pub && uint64(dev.PowerOutputs[idx]) != want {
				res.fail("after-downtime/published-value-differs-from-rule/after-"+last, map[string]interface{}{"slot": sk, "published": dev.PowerOutputs[idx], "rule": want})
			}
		}
	}
	return res
}

func init() {
	bfsSystems["c02"] = c02Exec
	checks["C02"] = func(tier string) int {
		run := newRun("C02", tier, "model_checking")
		arg := c02Arg{Slots: map[string][]int{"A": {0, 1}, "B": {0}}}
		depth := 8
		if tier == "thorough" {
			arg = c02Arg{Slots: map[string][]int{"A": {0, 1, -1}, "B": {0, 1}}}
			depth = 12
		}
		ops := c02Ops(arg)
		p := pool.New(0)
		st := bfsPool(run, p, "c02", arg, depth, 0, func([]string) []string { return ops })
		// the same search in a window that has rotated (offset 2016): indices and timeslots differ there
		arg2 := c02Arg{Slots: map[string][]int{"A": {0}, "C": {0}, "D": {0}}, Rotations: 1}
		if tier == "thorough" {
			arg2 = c02Arg{Slots: map[string][]int{"A": {0, 1}, "C": {0}, "D": {0}}, Rotations: 2}
		}
		ops2 := c02Ops(arg2)
		st2 := bfsPool(run, p, "c02", arg2, depth, 0, func([]string) []string { return ops2 })
		st.States += st2.States
		st.Transitions += st2.Transitions
		st.DeepChecked += st2.DeepChecked
		st.HarnessErrors += st2.HarnessErrors
		st.Capped = st.Capped || st2.Capped
		for k, v := range st2.Outcomes {
			st.Outcomes["rotated:"+k] += v
		}
		run.Coverage["rotated_window"] = map[string]interface{}{"rotations": arg2.Rotations, "slots": arg2.Slots, "states": st2.States, "transitions": st2.Transitions}
		finishBfs(run, st, "BFS to closure over histories of valid reports (8 variants: value, other value, same content re-signed with another nonce, limit, limit+1, two negatives, 2^63-1) for devices A (capacity 1000) and B (capacity 7) over the listed slots; state = per slot (empty | first report variant | banned); every transition = fresh real server + replay + one report, compared with the reference model, the set-based rule and all public observables")
		run.Coverage["slots"] = arg.Slots
		return exitCode(run, st)
	}
}

func finishBfs(run *ev.Run, st bfsPoolStats, rule string) {
	run.Coverage["states"] = st.States
	run.Coverage["transitions"] = st.Transitions
	run.Coverage["traces_validated_against_impl"] = st.Transitions
	run.Coverage["depth_completed"] = st.Depth
	run.Coverage["distinct_outcomes"] = len(st.Outcomes)
	run.Coverage["states_checked_through_public_api"] = st.DeepChecked
	run.Coverage["evaluations"] = st.Transitions
	run.Coverage["distinct_nontrivial"] = st.States
	run.Coverage["rule"] = rule
	if st.Capped {
		run.NotExhaustive("state cap or depth bound reached with unexplored successors")
	}
}

func exitCode(run *ev.Run, st bfsPoolStats) int {
	rc := run.Finish()
	if st.HarnessErrors > 0 && rc == 0 {
		return 3
	}
	return rc
}

var _ = glow.Sign
