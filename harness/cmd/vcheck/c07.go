package main

import (
	"verifh/pool"
)

func c07(tier string) int {
	arg := opsArg{Name: "c07", Init: []string{"now:100"}, RestartCheck: true}
	ops := []string{
		"reg:G1:temp", "reg:G2:temp", "reg:ZERO:temp", "reg:G1:G1", "reg:G1:srv", "reg:G2:G1", "reg:G1:temp:alt",
		"auth:1:kA:1000:temp", "auth:1:kA:1000:G1", "auth:1:kA:1000:G2",
		"sauth:S1:0:1:temp", "sauth:S1:0:1:G1", "sauth:S1:0:1:G2",
		"migr:kA:G3:temp:G3", "migr:kA:G3:G1:G3", "migr:kA:G3:G2:G3", "migr:kA:G3:G1:G3:stale", "migr:kA:G3:G1:G3:staleserver",
		"sauth:S1:0:1:G1:9:stale",
		"restart",
		"fail:gcaPubKey.dat:open", "fail:gcaPubKey.dat:write", // the next operation cannot create / write the key file
		"tornkey:11", // an 11-byte key file left behind by an interrupted first registration (server restarted on it)
	}
	depth := 8 // the reachable state space closes well before this depth
	if tier == "thorough" {
		depth = 12
	}
	run := newRun("C07", tier, "model_checking")
	p := pool.New(0)
	st := bfsPool(run, p, "ops", arg, depth, 0, authFilter(arg.Init, ops))
	// concurrent part: every interleaving (unbounded preemptions; the scenario is tiny)
	execs, ok := runScenarios(run, []srvScenarioDef{c07Scenario()}, -1, p)
	finishBfs(run, st, "sequential part: BFS to closure from an unregistered server over registrations (valid by either candidate, signed by the candidate itself / the server key / the winner, key altered after signing, replays, and registrations whose key file cannot be opened (EACCES) or written (ENOSPC): they must fail as a whole), restarts, and equipment authorizations, server authorizations and migration orders each signed by the temp key, G1 and G2; the model honours only the first temp-key-signed registration and afterwards only the winner's orders. Concurrent part: every interleaving at lock points of {reg G1, reg G2, reg G3 signed by the wrong key, authorization signed by G1}; (status codes, final key, gcaPubKey.dat) must equal a sequential order's outcome")
	run.Coverage["alphabet"] = ops
	run.Coverage["schedules"] = execs
	run.Coverage["transitions"] = st.Transitions + execs
	run.Coverage["traces_validated_against_impl"] = st.Transitions + execs
	run.Coverage["evaluations"] = st.Transitions + execs
	run.Coverage["distinct_outcomes_concurrent"] = run.DistinctCount("outcome")
	rc := exitCode(run, st)
	if !ok && rc == 0 {
		return 3
	}
	return rc
}
