package main

func c07(tier string) int {
	arg := opsArg{Name: "c07", Init: []string{"now:100"}, RestartCheck: true}
	ops := []string{
		"reg:G1:temp", "reg:G2:temp", "reg:G1:G1", "reg:G1:srv", "reg:G2:G1", "reg:G1:temp:alt",
		"auth:1:kA:1000:temp", "auth:1:kA:1000:G1", "auth:1:kA:1000:G2",
		"sauth:S1:0:1:temp", "sauth:S1:0:1:G1", "sauth:S1:0:1:G2",
		"migr:kA:G3:temp:G3", "migr:kA:G3:G1:G3", "migr:kA:G3:G2:G3",
		"restart",
	}
	depth := 8 // the reachable state space closes well before this depth
	if tier == "thorough" {
		depth = 12
	}
	return runOpsCheck("C07", tier, arg, ops, depth, "sequential part: BFS from an unregistered server over registrations (valid by either candidate, signed by the candidate itself / the server key / the winner, key altered after signing, replays), restarts, and equipment authorizations, server authorizations and migration orders each signed by the temp key, G1 and G2; the model honours only the first temp-key-signed registration and afterwards only the winner's orders")
}
