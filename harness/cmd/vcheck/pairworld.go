package main

// Reference encoder for TCP sync replies (written from the layout documented
// in server/sync_listener_tcp.go) and the client+server pair world.

import (
	"encoding/binary"
	"fmt"

	"github.com/glowlabs-org/gca-backend/client"
	"github.com/glowlabs-org/gca-backend/glow"
	"github.com/glowlabs-org/gca-backend/server"

	"verifh/shim/vtime"
)

type refReply struct {
	DevKey    glow.PublicKey
	Offset    uint32
	Bitfield  [504]byte
	NewGCA    glow.PublicKey
	NewID     uint32
	Servers   []server.AuthorizedServer
	MigSig    glow.Signature
	Timestamp uint64
}

// body returns the signed part (everything but the 2-byte length prefix and the signature).
func (r refReply) body() []byte {
	var b []byte
	b = append(b, r.DevKey[:]...)
	b = binary.LittleEndian.AppendUint32(b, r.Offset)
	b = append(b, r.Bitfield[:]...)
	b = append(b, r.NewGCA[:]...)
	b = binary.LittleEndian.AppendUint32(b, r.NewID)
	for _, s := range r.Servers {
		b = append(b, refServerBytes(s)...)
	}
	b = append(b, r.MigSig[:]...)
	b = binary.LittleEndian.AppendUint64(b, r.Timestamp)
	return b
}

func frame(body []byte, priv glow.PrivateKey) []byte {
	sig := glow.Sign(body, priv)
	body = append(append([]byte(nil), body...), sig[:]...)
	out := make([]byte, 2, 2+len(body))
	binary.LittleEndian.PutUint16(out, uint16(len(body)))
	return append(out, body...)
}

func (r refReply) encode(priv glow.PrivateKey) []byte { return frame(r.body(), priv) }

func nowUnix() uint64 { return uint64(vtime.Now().Unix()) }

// signedServer builds a GCA-signed server entry.
func signedServer(name string, banned bool, loc string, port uint16, gcaPriv glow.PrivateKey) server.AuthorizedServer {
	as := server.AuthorizedServer{PublicKey: key("server-" + name).Pub, Banned: banned, Location: loc, HttpPort: port, TcpPort: port + 1, UdpPort: port + 2}
	as.GCAAuthorization = glow.Sign(refServerSigningBytes(as), gcaPriv)
	return as
}

// ---- scripted servers for the client ----

type scriptedServer struct {
	Name string
	Key  keyPair
	Addr string // location
	Port uint16 // http port; tcp = +1, udp = +2
}

func mkScripted(name string, n int) scriptedServer {
	return scriptedServer{Name: name, Key: key("server-" + name), Addr: fmt.Sprintf("10.0.0.%d", n), Port: 7000}
}

func (s scriptedServer) entry() client.GCAServer {
	return client.GCAServer{Location: s.Addr, HttpPort: s.Port, TcpPort: s.Port + 1, UdpPort: s.Port + 2}
}

func (s scriptedServer) tcpAddr() string { return fmt.Sprintf("%s:%d", s.Addr, s.Port+1) }
func (s scriptedServer) udpAddr() string { return fmt.Sprintf("%s:%d", s.Addr, s.Port+2) }

// ---- client + real server ----

type pairWorld struct {
	Srv  *opsWorld
	Cli  *cliWorld
	Hub  *netHub
	Dev  keyPair
	ID   uint32
	Addr scriptedServer // where the client believes the real server lives
	// Deliver decides the fate of each datagram the client emits (nil = deliver).
	Deliver func(n int, dg []byte) bool
	sent    int
	phase   string
}

func (p *pairWorld) entry() client.GCAServer { return p.Addr.entry() }

// newPairWorld starts a registered real server with the device authorized and a
// real client configured for it. init are extra server operations.
func newPairWorld(name string, capacity uint64, init []string, energy *string, historyOffset uint32) (*pairWorld, error) {
	sw, err := newOpsWorld(name)
	if err != nil {
		return nil, err
	}
	p := &pairWorld{Srv: sw, Dev: key("kDev"), ID: 0, Addr: scriptedServer{Name: "real", Key: sw.Srv, Addr: "10.0.0.1", Port: 7000}}
	ops := append([]string{"reg:G1:temp", fmt.Sprintf("auth:%d:kDev:%d:G1", p.ID, capacity)}, init...)
	for _, op := range ops {
		if r := sw.apply(op); r.Sig != "" {
			sw.Abandon()
			return nil, fmt.Errorf("init op %s: %s (%s)", op, r.Sig, r.Obs)
		}
	}
	scriptClientRandomness()
	p.Hub = newHub()
	p.Hub.serveReal(p.Addr.tcpAddr(), sw.srvWorld)
	p.Hub.UDP[p.Addr.udpAddr()] = func(b []byte) error {
		n := p.sent
		p.sent++
		if p.Deliver != nil && !p.Deliver(n, b) {
			return nil
		}
		sw.S.VerifInjectDatagram(b)
		sw.M.datagram(b, sw.Now)
		return nil
	}
	cfg := cliConfig{Key: p.Dev, ShortID: p.ID, GCA: key("G1").Pub, HistoryOffset: historyOffset, Energy: energy,
		Servers: map[glow.PublicKey]client.GCAServer{sw.Srv.Pub: p.entry()}}
	p.Cli, err = newClientWorld(cfg)
	if err != nil {
		sw.Abandon()
		return nil, err
	}
	return p, nil
}

func (p *pairWorld) finish(res *bfsResult, poisoned bool) {
	if poisoned {
		p.Cli.Abandon()
		p.Srv.Abandon()
		return
	}
	if pn := safely(func() { p.Cli.Close() }); pn != "" {
		res.fail("client-close-panic", pn)
	}
	p.Cli.Cleanup()
	p.Srv.finish(res)
}
