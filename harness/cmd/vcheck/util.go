package main

import (
	"net"
	"os"
	"path/filepath"
	"runtime"

	"github.com/ethereum/go-ethereum/crypto"
)

func keccak(b []byte) []byte { return crypto.Keccak256(b) }

func netPipe() (net.Conn, net.Conn) { return net.Pipe() }

func runtimeStack(buf []byte) int { return runtime.Stack(buf, false) }

func readFileMaybe(dir, name string) ([]byte, error) {
	b, err := os.ReadFile(filepath.Join(dir, name))
	if os.IsNotExist(err) {
		return nil, nil
	}
	return b, err
}
