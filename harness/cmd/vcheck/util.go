package main

import (
	"net"
	"runtime"

	"github.com/ethereum/go-ethereum/crypto"
)

func keccak(b []byte) []byte { return crypto.Keccak256(b) }

func netPipe() (net.Conn, net.Conn) { return net.Pipe() }

func runtimeStack(buf []byte) int { return runtime.Stack(buf, false) }
