package main

import (
	"fmt"
	"github.com/glowlabs-org/gca-backend/glow"
	"net"
	"os"
	"path/filepath"
	"reflect"
	"runtime"
	"strings"
	"time"
	"unsafe"
	"verifh/vsched"

	"github.com/ethereum/go-ethereum/crypto"
)

func keccak(b []byte) []byte { return crypto.Keccak256(b) }

func netPipe() (net.Conn, net.Conn) { return net.Pipe() }

func runtimeStack(buf []byte) int { return runtime.Stack(buf, false) }

func readFileMaybe(dir, name string) ([]byte, error) {
	b, err := os.ReadFile(filepath.Join(dir, name))
	if os.IsNotExist(err) {
		return nil, nil
	}
	return b, err
}

func goID() int64 { return vsched.GoID() }

// refVerify is the harness's own statement of the documented signature
// scheme, independent of glow.Verify: Keccak-256 of the signing bytes,
// secp256k1 ECDSA over a key given as the 32-byte x coordinate of a point
// with even y (0x02 prefix), signature r||s accepted only in canonical
// low-s form.
func refVerify(pub glow.PublicKey, data []byte, sig glow.Signature) bool {
	comp := append([]byte{0x02}, pub[:]...)
	if _, err := crypto.DecompressPubkey(comp); err != nil {
		return false
	}
	return crypto.VerifySignature(comp, crypto.Keccak256(data), sig[:])
}

// processDeath classifies the stderr of a worker that died: if the runtime's report (unrecovered panic or fatal
// error) names a function of the repository in the stack of the faulting goroutine, the repository killed the
// process, and the returned signature says where; otherwise the death is the harness's own problem.
func processDeath(dump string) (string, bool) {
	i := strings.Index(dump, "fatal error: ")
	if j := strings.Index(dump, "panic: "); j >= 0 && (i < 0 || j < i) {
		i = j
	}
	if i < 0 {
		return "", false
	}
	rest := dump[i:]
	why := firstLine(rest)
	// the faulting goroutine's stack is the first "goroutine N [" block; it ends at the next blank line
	g := strings.Index(rest, "\ngoroutine ")
	if g < 0 {
		return "", false
	}
	block := rest[g+1:]
	if e := strings.Index(block, "\n\n"); e >= 0 {
		block = block[:e]
	}
	if !strings.Contains(block, "glowlabs-org/gca-backend/") {
		return "", false
	}
	if len(why) > 80 {
		why = why[:80]
	}
	return "process-dies/" + why + "/" + panicSite(block), true
}

func headStr(s string, n int) string {
	if len(s) > n {
		return s[:n]
	}
	return s
}

// spinWitness looks, in the goroutine dump of a job that ran into its time limit, for a goroutine that is
// still executing (running or runnable, not waiting for anything) inside a function of the repository: that
// operation does not return.
func spinWitness(dump string) (string, string, bool) {
	for _, g := range strings.Split(dump, "\n\n") {
		head := firstLine(strings.TrimSpace(g))
		if !strings.HasPrefix(head, "goroutine ") || !(strings.Contains(head, "[running") || strings.Contains(head, "[runnable")) {
			continue
		}
		if strings.Contains(g, "glowlabs-org/gca-backend/") {
			return panicSite(g), g, true
		}
	}
	return "", "", false
}

// hiddenState renders every field of a value (unexported ones included) in a form that does not depend on the
// absolute clock: time stamps become ages relative to now. Used as part of a search's state key so that two
// histories are merged only if the implementation, too, is in the same state - a field the reference model does
// not know about (a cursor, a cache, a flag) keeps them apart.
func hiddenState(ptr interface{}, now time.Time) string {
	var sb strings.Builder
	var walk func(v reflect.Value, depth int)
	walk = func(v reflect.Value, depth int) {
		if depth > 6 {
			return
		}
		if v.Type() == reflect.TypeOf(time.Time{}) {
			t := reflect.NewAt(v.Type(), unsafe.Pointer(v.UnsafeAddr())).Elem().Interface().(time.Time)
			if t.IsZero() {
				sb.WriteString("t0 ")
			} else {
				fmt.Fprintf(&sb, "t%d ", int64(now.Sub(t)))
			}
			return
		}
		switch v.Kind() {
		case reflect.Struct:
			if n := v.Type().Name(); strings.Contains(n, "Mutex") || strings.Contains(n, "WaitGroup") {
				return
			}
			sb.WriteString("{")
			for i := 0; i < v.NumField(); i++ {
				walk(v.Field(i), depth+1)
			}
			sb.WriteString("}")
		case reflect.Slice, reflect.Array:
			fmt.Fprintf(&sb, "[%d:", v.Len())
			for i := 0; i < v.Len(); i++ {
				walk(v.Index(i), depth+1)
			}
			sb.WriteString("]")
		case reflect.Int, reflect.Int8, reflect.Int16, reflect.Int32, reflect.Int64:
			fmt.Fprintf(&sb, "%d ", v.Int())
		case reflect.Uint, reflect.Uint8, reflect.Uint16, reflect.Uint32, reflect.Uint64, reflect.Uintptr:
			fmt.Fprintf(&sb, "%d ", v.Uint())
		case reflect.Bool:
			fmt.Fprintf(&sb, "%v ", v.Bool())
		case reflect.String:
			fmt.Fprintf(&sb, "%q ", v.String())
		case reflect.Ptr:
			if !v.IsNil() {
				walk(v.Elem(), depth+1)
			}
		}
	}
	walk(reflect.ValueOf(ptr).Elem(), 0)
	return sb.String()
}
