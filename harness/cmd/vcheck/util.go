package main

import (
	"github.com/glowlabs-org/gca-backend/glow"
	"net"
	"os"
	"path/filepath"
	"runtime"
	"verifh/vsched"

	"github.com/ethereum/go-ethereum/crypto"
)

func keccak(b []byte) []byte { return crypto.Keccak256(b) }

func netPipe() (net.Conn, net.Conn) { return net.Pipe() }

func runtimeStack(buf []byte) int { return runtime.Stack(buf, false) }

func readFileMaybe(dir, name string) ([]byte, error) {
	b, err := os.ReadFile(filepath.Join(dir, name))
	if os.IsNotExist(err) {
		return nil, nil
	}
	return b, err
}

func goID() int64 { return vsched.GoID() }

// refVerify is the harness's own statement of the documented signature
// scheme, independent of glow.Verify: Keccak-256 of the signing bytes,
// secp256k1 ECDSA over a key given as the 32-byte x coordinate of a point
// with even y (0x02 prefix), signature r||s accepted only in canonical
// low-s form.
func refVerify(pub glow.PublicKey, data []byte, sig glow.Signature) bool {
	comp := append([]byte{0x02}, pub[:]...)
	if _, err := crypto.DecompressPubkey(comp); err != nil {
		return false
	}
	return crypto.VerifySignature(comp, crypto.Keccak256(data), sig[:])
}
