package main

import (
	"fmt"
	"os"
	"os/exec"
	"path/filepath"
	"strings"
)

// raceBodies are free-running versions of the scenario bodies, executed by the
// -race binary (a cooperative scheduler's hand-offs are happens-before edges
// that would blind the detector).
var raceBodies = map[string]func(){}

// racePass runs `vcheck-race racebody <name>` and returns a summary.
func racePass(name string) map[string]interface{} {
	bin := filepath.Join(filepath.Dir(os.Args[0]), "vcheck-race")
	if _, err := os.Stat(bin); err != nil {
		return map[string]interface{}{"ran": false, "why": "race binary not built"}
	}
	cmd := exec.Command(bin, "racebody", name)
	cmd.Env = append(os.Environ(), "VERIF_REALTIME=1", "VERIF_RACE=1", "GORACE=halt_on_error=0 exitcode=0")
	out, err := cmd.CombinedOutput()
	// only reports that involve a function of the repository count; a race between two harness functions is the
	// harness's own defect and must not be blamed on the code under test
	n, own := 0, 0
	var kept []string
	for _, blk := range strings.Split(string(out), "==================") {
		if !strings.Contains(blk, "WARNING: DATA RACE") {
			continue
		}
		repoFrame := false
		for _, line := range strings.Split(blk, "\n") {
			if strings.Contains(line, "gca-backend/") && strings.Contains(line, "(") && !strings.Contains(line, "Verif") {
				repoFrame = true
			}
		}
		if repoFrame {
			n++
			kept = append(kept, blk)
		} else {
			own++
		}
	}
	if n > 0 {
		out = []byte(strings.Join(kept, "=================="))
	}
	res := map[string]interface{}{"ran": true, "data_races": n, "harness_only_reports": own}
	if err != nil {
		res["error"] = err.Error()
	}
	if n > 0 {
		s := string(out)
		if len(s) > 6000 {
			s = s[:6000]
		}
		res["first_report"] = s
		// the first repository frame of the first report names the racing site
		for _, line := range strings.Split(s, "\n") {
			if i := strings.Index(line, "gca-backend/"); i >= 0 && strings.Contains(line, "(") && !strings.Contains(line, "Verif") {
				site := strings.TrimSpace(line[i+len("gca-backend/"):])
				if k := strings.LastIndex(site, "("); k > 0 {
					site = site[:k]
				}
				res["first_site"] = site
				break
			}
		}
	}
	return res
}

func runRaceBody(name string) int {
	f := raceBodies[name]
	if f == nil {
		fmt.Println("no race body", name)
		return 2
	}
	f()
	return 0
}
