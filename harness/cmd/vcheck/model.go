package main

// Reference model of the GCA server, written from the property statements
// (not from the code), deliberately boring: maps and slices, order-free by
// construction where the properties demand order independence.

import (
	"bytes"
	"encoding/binary"
	"encoding/hex"
	"fmt"
	"math"
	"sort"
	"strings"

	"github.com/glowlabs-org/gca-backend/glow"
	"github.com/glowlabs-org/gca-backend/server"
)

const (
	mHalfWidth = 432  // acceptance half width in slots (C01)
	mWindow    = 4032 // two weeks of slots
	mWeek      = 2016
	mCapBuffer = 135 // percent
)

// ---- independent encoders, written from the documented layouts ----

func refReportSigningBytes(id, ts uint32, power uint64) []byte {
	b := []byte("EquipmentReport")
	b = binary.LittleEndian.AppendUint32(b, id)
	b = binary.LittleEndian.AppendUint32(b, ts)
	b = binary.LittleEndian.AppendUint64(b, power)
	return b
}

func refReportBytes(id, ts uint32, power uint64, sig glow.Signature) []byte {
	var b []byte
	b = binary.LittleEndian.AppendUint32(b, id)
	b = binary.LittleEndian.AppendUint32(b, ts)
	b = binary.LittleEndian.AppendUint64(b, power)
	return append(b, sig[:]...)
}

func refAuthBody(ea glow.EquipmentAuthorization) []byte {
	var b []byte
	b = binary.LittleEndian.AppendUint32(b, ea.ShortID)
	b = append(b, ea.PublicKey[:]...)
	b = binary.LittleEndian.AppendUint64(b, math.Float64bits(ea.Latitude))
	b = binary.LittleEndian.AppendUint64(b, math.Float64bits(ea.Longitude))
	b = binary.LittleEndian.AppendUint64(b, ea.Capacity)
	b = binary.LittleEndian.AppendUint64(b, ea.Debt)
	b = binary.LittleEndian.AppendUint32(b, ea.Expiration)
	b = binary.LittleEndian.AppendUint32(b, ea.Initialization)
	b = binary.LittleEndian.AppendUint64(b, ea.ProtocolFee)
	return b
}

func refAuthBytes(ea glow.EquipmentAuthorization) []byte {
	return append(refAuthBody(ea), ea.Signature[:]...)
}

func refAuthSigningBytes(ea glow.EquipmentAuthorization) []byte {
	return append([]byte("EquipmentAuthorization"), refAuthBody(ea)...)
}

func refRegistrationSigningBytes(k glow.PublicKey) []byte {
	return append([]byte("GCARegistration"), k[:]...)
}

func refServerBody(as server.AuthorizedServer) []byte {
	var b []byte
	b = append(b, as.PublicKey[:]...)
	if as.Banned {
		b = append(b, 1)
	} else {
		b = append(b, 0)
	}
	b = append(b, byte(len(as.Location)))
	b = append(b, as.Location...)
	b = binary.LittleEndian.AppendUint16(b, as.HttpPort)
	b = binary.LittleEndian.AppendUint16(b, as.TcpPort)
	b = binary.LittleEndian.AppendUint16(b, as.UdpPort)
	return b
}

func refServerBytes(as server.AuthorizedServer) []byte {
	return append(refServerBody(as), as.GCAAuthorization[:]...)
}

func refServerSigningBytes(as server.AuthorizedServer) []byte {
	return append([]byte("AuthorizedServer"), refServerBody(as)...)
}

func refMigrationBody(em server.EquipmentMigration) []byte {
	var b []byte
	b = append(b, em.Equipment[:]...)
	b = append(b, em.NewGCA[:]...)
	b = binary.LittleEndian.AppendUint32(b, em.NewShortID)
	for _, s := range em.NewServers {
		b = append(b, refServerBytes(s)...)
	}
	return b
}

func refMigrationSigningBytes(em server.EquipmentMigration) []byte {
	return append([]byte("EquipmentMigration"), refMigrationBody(em)...)
}

// weekDevice is one device of a weekly statistics record.
type weekDevice struct {
	Key   glow.PublicKey
	Power [mWeek]uint64
	Rate  [mWeek]float64
}

type weekRecord struct {
	Devices []weekDevice
	Offset  uint32
	Sig     glow.Signature
}

func refWeekBody(w weekRecord) []byte {
	b := make([]byte, 0, 8+len(w.Devices)*(32+16*mWeek))
	b = binary.LittleEndian.AppendUint32(b, uint32(len(w.Devices)))
	for _, d := range w.Devices {
		b = append(b, d.Key[:]...)
		for _, p := range d.Power {
			b = binary.LittleEndian.AppendUint64(b, p)
		}
		for _, r := range d.Rate {
			b = binary.LittleEndian.AppendUint64(b, math.Float64bits(r))
		}
	}
	b = binary.LittleEndian.AppendUint32(b, w.Offset)
	return b
}

func refWeekSigningBytes(w weekRecord) []byte {
	return append([]byte("AllDeviceStats"), refWeekBody(w)...)
}

func refWeekBytes(w weekRecord) []byte { return append(refWeekBody(w), w.Sig[:]...) }

// refParseWeeks decodes a concatenation of weekly records.
func refParseWeeks(b []byte) ([]weekRecord, error) {
	var out []weekRecord
	for len(b) > 0 {
		if len(b) < 4 {
			return nil, fmt.Errorf("short count")
		}
		n := int(binary.LittleEndian.Uint32(b))
		need := 4 + n*(32+16*mWeek) + 4 + 64
		if n > 1<<16 || len(b) < need {
			return nil, fmt.Errorf("short record: have %d need %d", len(b), need)
		}
		var w weekRecord
		p := 4
		for i := 0; i < n; i++ {
			var d weekDevice
			copy(d.Key[:], b[p:])
			p += 32
			for j := 0; j < mWeek; j++ {
				d.Power[j] = binary.LittleEndian.Uint64(b[p:])
				p += 8
			}
			for j := 0; j < mWeek; j++ {
				d.Rate[j] = math.Float64frombits(binary.LittleEndian.Uint64(b[p:]))
				p += 8
			}
			w.Devices = append(w.Devices, d)
		}
		w.Offset = binary.LittleEndian.Uint32(b[p:])
		p += 4
		copy(w.Sig[:], b[p:])
		p += 64
		out = append(out, w)
		b = b[p:]
	}
	return out, nil
}

// ---- the model ----

type mSlot struct {
	First  [80]byte // the first report integrated for the slot
	Seen   map[[80]byte]bool
	Banned bool
}

func (s *mSlot) value() uint64 {
	if s == nil {
		return 0
	}
	if s.Banned {
		return 1
	}
	return binary.LittleEndian.Uint64(s.First[8:16])
}

type srvModel struct {
	Registered bool
	Gone       []glow.PublicKey // keys involved in a ban (the banned device's and the conflicting one): they name no device any more unless authorized under another id
	GCA        glow.PublicKey
	Temp       glow.PublicKey
	Devices    map[uint32]glow.EquipmentAuthorization
	Bans       map[uint32]bool
	Offset     uint32
	Slots      map[uint32]map[uint32]*mSlot  // id -> absolute timeslot -> slot
	Impact     map[uint32]map[uint32]float64 // id -> absolute timeslot -> rate
	Archive    []mArchivedWeek
	ReportLog  int // number of reports persisted
	AuthLog    int // number of authorizations persisted
	Servers    []server.AuthorizedServer
	Migrations map[glow.PublicKey]server.EquipmentMigration
}

// serverAuth applies a server authorization post (C17): entries appear only
// with a valid GCA signature, change only to banned, never back.
func (m *srvModel) serverAuth(as server.AuthorizedServer) bool {
	if !m.Registered || !refVerify(m.GCA, refServerSigningBytes(as), as.GCAAuthorization) {
		return false
	}
	if len(as.Location) > 255 {
		return false // the wire format cannot carry it (one length byte): listing it would make every sync reply undecodable
	}
	for i := range m.Servers {
		if m.Servers[i].PublicKey == as.PublicKey {
			if !m.Servers[i].Banned && as.Banned {
				m.Servers[i] = as
			}
			return true
		}
	}
	m.Servers = append(m.Servers, as)
	return true
}

// migrate applies a migration order: outer signature by the registered GCA,
// every new server signed by the new GCA.
func (m *srvModel) migrate(em server.EquipmentMigration) bool {
	if !m.Registered || !refVerify(m.GCA, refMigrationSigningBytes(em), em.Signature) {
		return false
	}
	for _, s := range em.NewServers {
		if len(s.Location) > 255 || !refVerify(em.NewGCA, refServerSigningBytes(s), s.GCAAuthorization) {
			return false
		}
	}
	if m.Migrations == nil {
		m.Migrations = map[glow.PublicKey]server.EquipmentMigration{}
	}
	m.Migrations[em.Equipment] = em
	return true
}

// restartVolatile drops what the code documents as not yet persisted.
func (m *srvModel) restartVolatile() {
	m.Servers = nil
	m.Migrations = nil
	// Live-window impact rates are re-fetched from WattTime at start-up in
	// production and are not persisted; C04 does not list them.
	m.Impact = map[uint32]map[uint32]float64{}
}

type mArchivedWeek struct {
	Offset  uint32
	Devices map[glow.PublicKey]*weekDevice
}

func newSrvModel(temp glow.PublicKey) *srvModel {
	return &srvModel{Temp: temp, Devices: map[uint32]glow.EquipmentAuthorization{}, Bans: map[uint32]bool{},
		Slots: map[uint32]map[uint32]*mSlot{}, Impact: map[uint32]map[uint32]float64{}}
}

// acceptable is the predicate of C01 on the leading 80 bytes of a datagram.
func (m *srvModel) acceptable(dg []byte, now uint32) (ok bool, why string) {
	if len(dg) < 80 {
		return false, "short"
	}
	id := binary.LittleEndian.Uint32(dg[0:])
	ts := binary.LittleEndian.Uint32(dg[4:])
	power := binary.LittleEndian.Uint64(dg[8:])
	var sig glow.Signature
	copy(sig[:], dg[16:80])
	dev, okd := m.Devices[id]
	if !okd || m.Bans[id] {
		return false, "unknown-or-banned-device"
	}
	if !refVerify(dev.PublicKey, refReportSigningBytes(id, ts, power), sig) {
		return false, "bad-signature"
	}
	if int64(ts) < int64(now)-mHalfWidth || int64(ts) > int64(now)+mHalfWidth {
		return false, "outside-acceptance-range"
	}
	if int64(ts) < int64(m.Offset) || int64(ts) >= int64(m.Offset)+mWindow {
		return false, "outside-storage-window"
	}
	if power == 0 || power == 1 {
		return false, "sentinel-power"
	}
	return true, ""
}

// datagram applies one datagram; it returns whether state changed.
func (m *srvModel) datagram(dg []byte, now uint32) (accepted bool, why string) {
	ok, why := m.acceptable(dg, now)
	if !ok {
		return false, why
	}
	var r [80]byte
	copy(r[:], dg[:80])
	return m.integrate(r), ""
}

// integrate applies the per-slot rule of C02 to an acceptable report and
// returns whether anything observable or persisted changed.
func (m *srvModel) integrate(r [80]byte) bool {
	id := binary.LittleEndian.Uint32(r[0:])
	ts := binary.LittleEndian.Uint32(r[4:])
	power := binary.LittleEndian.Uint64(r[8:])
	if m.Slots[id] == nil {
		m.Slots[id] = map[uint32]*mSlot{}
	}
	s := m.Slots[id][ts]
	if s != nil && s.Banned {
		return false // banned is absorbing
	}
	if s != nil && s.First == r {
		return false // identical replay
	}
	if s == nil {
		s = &mSlot{First: r, Seen: map[[80]byte]bool{}}
		m.Slots[id][ts] = s
	} else {
		s.Banned = true // second distinct report
	}
	s.Seen[r] = true
	limit := new(bigU).mulDiv(m.Devices[id].Capacity, mCapBuffer, 100)
	if power < 1<<63 && limit.lessThan(power) {
		s.Banned = true
	}
	m.ReportLog++
	return true
}

// bigU is a tiny helper for capacity*135/100 without uint64 overflow.
type bigU struct{ hi, lo uint64 }

func (b *bigU) mulDiv(a, mul, div uint64) *bigU {
	// a*mul as 128 bit
	hi, lo := mul64(a, mul)
	// divide by div (div small)
	q1 := hi / div
	r := hi % div
	q0, _ := div128(r, lo, div)
	b.hi, b.lo = q1, q0
	return b
}

func (b *bigU) lessThan(x uint64) bool { return b.hi == 0 && b.lo < x }

func mul64(a, b uint64) (hi, lo uint64) {
	const mask = 1<<32 - 1
	a0, a1 := a&mask, a>>32
	b0, b1 := b&mask, b>>32
	w0 := a0 * b0
	t := a1*b0 + w0>>32
	w1 := t & mask
	w2 := t >> 32
	w1 += a0 * b1
	hi = a1*b1 + w2 + w1>>32
	lo = a * b
	return
}

func div128(hi, lo, d uint64) (q, r uint64) {
	// hi < d assumed
	for i := 0; i < 64; i++ {
		carry := hi >> 63
		hi = hi<<1 | lo>>63
		lo <<= 1
		q <<= 1
		if carry == 1 || hi >= d {
			hi -= d
			q |= 1
		}
	}
	return q, hi
}

// register applies a registration attempt; it returns whether it succeeded.
func (m *srvModel) register(k glow.PublicKey, sig glow.Signature) bool {
	if m.Registered {
		return false
	}
	if !refVerify(m.Temp, refRegistrationSigningBytes(k), sig) {
		return false
	}
	m.Registered = true
	m.GCA = k
	return true
}

type authOutcome int

const (
	authRefused authOutcome = iota
	authAdded
	authDuplicate
	authConflictBan
)

// authorize applies an equipment authorization (C06).
func (m *srvModel) authorize(ea glow.EquipmentAuthorization) authOutcome {
	if !m.Registered {
		return authRefused
	}
	if !refVerify(m.GCA, refAuthSigningBytes(ea), ea.Signature) {
		return authRefused
	}
	if m.Bans[ea.ShortID] {
		return authRefused
	}
	cur, ok := m.Devices[ea.ShortID]
	if !ok {
		m.Devices[ea.ShortID] = ea
		m.AuthLog++
		return authAdded
	}
	if bytes.Equal(refAuthBytes(cur), refAuthBytes(ea)) {
		return authDuplicate
	}
	// conflict: evidence is kept, the id is banned, its live data disappears
	m.Gone = append(m.Gone, cur.PublicKey, ea.PublicKey)
	m.AuthLog++
	delete(m.Devices, ea.ShortID)
	delete(m.Slots, ea.ShortID)
	delete(m.Impact, ea.ShortID)
	m.Bans[ea.ShortID] = true
	return authConflictBan
}

// rotate moves the first live week into the archive.
func (m *srvModel) rotate() {
	w := mArchivedWeek{Offset: m.Offset, Devices: map[glow.PublicKey]*weekDevice{}}
	for id, ea := range m.Devices {
		d := &weekDevice{Key: ea.PublicKey}
		for ts, s := range m.Slots[id] {
			if ts >= m.Offset && ts < m.Offset+mWeek {
				d.Power[ts-m.Offset] = s.value()
			}
		}
		for ts, r := range m.Impact[id] {
			if ts >= m.Offset && ts < m.Offset+mWeek {
				d.Rate[ts-m.Offset] = r
			}
		}
		w.Devices[ea.PublicKey] = d
	}
	m.Archive = append(m.Archive, w)
	m.Offset += mWeek
	for id := range m.Slots {
		for ts := range m.Slots[id] {
			if ts < m.Offset {
				delete(m.Slots[id], ts)
			}
		}
	}
	for id := range m.Impact {
		for ts := range m.Impact[id] {
			if ts < m.Offset {
				delete(m.Impact[id], ts)
			}
		}
	}
}

// liveWeek returns the model's statistics for a live week (0 or 1).
func (m *srvModel) liveWeek(half int) map[glow.PublicKey]*weekDevice {
	base := m.Offset + uint32(half)*mWeek
	out := map[glow.PublicKey]*weekDevice{}
	for id, ea := range m.Devices {
		d := &weekDevice{Key: ea.PublicKey}
		for ts, s := range m.Slots[id] {
			if ts >= base && ts < base+mWeek {
				d.Power[ts-base] = s.value()
			}
		}
		for ts, r := range m.Impact[id] {
			if ts >= base && ts < base+mWeek {
				d.Rate[ts-base] = r
			}
		}
		out[ea.PublicKey] = d
	}
	return out
}

// ---- canonical forms ----

// valueKey is the canonical, order-free, value-level form of the model.
func (m *srvModel) valueKey() string {
	var sb strings.Builder
	fmt.Fprintf(&sb, "off=%d;reg=%v:%s;", m.Offset, m.Registered, hex.EncodeToString(m.GCA[:4]))
	ids := make([]uint32, 0, len(m.Devices))
	for id := range m.Devices {
		ids = append(ids, id)
	}
	sort.Slice(ids, func(i, j int) bool { return ids[i] < ids[j] })
	for _, id := range ids {
		fmt.Fprintf(&sb, "dev%d=%s;", id, hex.EncodeToString(refAuthBytes(m.Devices[id])))
		var tss []uint32
		for ts := range m.Slots[id] {
			tss = append(tss, ts)
		}
		sort.Slice(tss, func(i, j int) bool { return tss[i] < tss[j] })
		for _, ts := range tss {
			fmt.Fprintf(&sb, "s%d@%d=%d;", id, ts, m.Slots[id][ts].value())
		}
		var its []uint32
		for ts := range m.Impact[id] {
			its = append(its, ts)
		}
		sort.Slice(its, func(i, j int) bool { return its[i] < its[j] })
		for _, ts := range its {
			fmt.Fprintf(&sb, "i%d@%d=%x;", id, ts, math.Float64bits(m.Impact[id][ts]))
		}
	}
	var bans []uint32
	for id := range m.Bans {
		bans = append(bans, id)
	}
	sort.Slice(bans, func(i, j int) bool { return bans[i] < bans[j] })
	fmt.Fprintf(&sb, "bans=%v;archive=%d;", bans, len(m.Archive))
	for _, w := range m.Archive {
		fmt.Fprintf(&sb, "w%d:", w.Offset)
		var ks []string
		for k, d := range w.Devices {
			h := hex.EncodeToString(k[:4])
			for i, p := range d.Power {
				if p != 0 {
					h += fmt.Sprintf(",p%d=%d", i, p)
				}
			}
			for i, r := range d.Rate {
				if r != 0 {
					h += fmt.Sprintf(",r%d=%x", i, math.Float64bits(r))
				}
			}
			ks = append(ks, h)
		}
		sort.Strings(ks)
		sb.WriteString(strings.Join(ks, "/"))
		sb.WriteByte(';')
	}
	return sb.String()
}

// snapValueKey renders a real snapshot in the same value-level form.
func snapValueKey(s server.VerifSnapshot) (string, error) {
	var sb strings.Builder
	fmt.Fprintf(&sb, "off=%d;reg=%v:%s;", s.ReportsOffset, s.GCAAvailable, hex.EncodeToString(s.GCAPubKey[:4]))
	ids := make([]uint32, 0, len(s.Equipment))
	for id := range s.Equipment {
		ids = append(ids, id)
	}
	sort.Slice(ids, func(i, j int) bool { return ids[i] < ids[j] })
	// structural consistency of the snapshot itself
	if fmt.Sprint(ids) != fmt.Sprint(s.ReportIDs) || fmt.Sprint(ids) != fmt.Sprint(s.ImpactIDs) {
		return "", fmt.Errorf("device maps disagree: equipment %v, report arrays %v, impact arrays %v", ids, s.ReportIDs, s.ImpactIDs)
	}
	if len(s.ShortIDs) != len(s.Equipment) {
		return "", fmt.Errorf("public-key index has %d entries for %d devices", len(s.ShortIDs), len(s.Equipment))
	}
	for id, ea := range s.Equipment {
		if got, ok := s.ShortIDs[ea.PublicKey]; !ok || got != id {
			return "", fmt.Errorf("public-key index does not map device %d's key to it", id)
		}
	}
	for _, id := range ids {
		ea := s.Equipment[id]
		fmt.Fprintf(&sb, "dev%d=%s;", id, hex.EncodeToString(refAuthBytes(ea)))
		for _, sl := range s.Reports[id] {
			if sl.Report.PowerOutput == 0 {
				return "", fmt.Errorf("device %d slot %d holds a non-blank report with power 0", id, sl.Index)
			}
			fmt.Fprintf(&sb, "s%d@%d=%d;", id, s.ReportsOffset+sl.Index, sl.Report.PowerOutput)
		}
		for _, im := range s.Impact[id] {
			fmt.Fprintf(&sb, "i%d@%d=%x;", id, s.ReportsOffset+im.Index, math.Float64bits(im.Rate))
		}
	}
	fmt.Fprintf(&sb, "bans=%v;archive=%d;", append([]uint32{}, s.Bans...), len(s.History))
	for _, hb := range s.History {
		ws, err := refParseWeeks(hb)
		if err != nil || len(ws) != 1 {
			return "", fmt.Errorf("archived week does not parse: %v", err)
		}
		w := ws[0]
		fmt.Fprintf(&sb, "w%d:", w.Offset)
		var ks []string
		for _, d := range w.Devices {
			h := hex.EncodeToString(d.Key[:4])
			for i, p := range d.Power {
				if p != 0 {
					h += fmt.Sprintf(",p%d=%d", i, p)
				}
			}
			for i, r := range d.Rate {
				if r != 0 {
					h += fmt.Sprintf(",r%d=%x", i, math.Float64bits(r))
				}
			}
			ks = append(ks, h)
		}
		sort.Strings(ks)
		sb.WriteString(strings.Join(ks, "/"))
		sb.WriteByte(';')
	}
	return sb.String(), nil
}

// snapFullKey is the full-detail canonical form used for before/after
// equality on one instance (signatures of stored reports included).
func snapFullKey(s server.VerifSnapshot) string {
	var sb strings.Builder
	v, err := snapValueKey(s)
	if err != nil {
		v = "ERR:" + err.Error()
	}
	sb.WriteString(v)
	ids := append([]uint32{}, s.ReportIDs...)
	for _, id := range ids {
		for _, sl := range s.Reports[id] {
			fmt.Fprintf(&sb, "S%d@%d=%x;", id, sl.Index, sl.Report.Serialize())
		}
	}
	for _, hb := range s.History {
		fmt.Fprintf(&sb, "H%x;", keccak(hb))
	}
	fmt.Fprintf(&sb, "recent=%d;", len(s.RecentReports))
	for _, r := range s.RecentReports {
		fmt.Fprintf(&sb, "%x,", r.Signature[:4])
	}
	fmt.Fprintf(&sb, "servers=%d;migr=%d;", len(s.Servers), len(s.Migrations))
	return sb.String()
}
