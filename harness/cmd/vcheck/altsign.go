package main

import (
	"github.com/decred/dcrd/dcrec/secp256k1/v4"
	"github.com/ethereum/go-ethereum/crypto"
	"github.com/glowlabs-org/gca-backend/glow"
)

// altSign produces a second, different, valid low-s ECDSA signature for data
// by using another RFC 6979 nonce iteration than the deterministic signer.
func altSign(data []byte, priv glow.PrivateKey, iteration uint32) glow.Signature {
	hash := crypto.Keccak256(data)
	var d secp256k1.ModNScalar
	d.SetByteSlice(priv[:])
	for it := iteration; ; it++ {
		k := secp256k1.NonceRFC6979(priv[:], hash, nil, nil, it)
		var R secp256k1.JacobianPoint
		secp256k1.ScalarBaseMultNonConst(k, &R)
		R.ToAffine()
		var r secp256k1.ModNScalar
		xb := R.X.Bytes()
		if overflow := r.SetByteSlice(xb[:]); overflow || r.IsZero() {
			continue
		}
		var e secp256k1.ModNScalar
		e.SetByteSlice(hash)
		kinv := new(secp256k1.ModNScalar).Set(k).InverseNonConst()
		s := new(secp256k1.ModNScalar).Mul2(&d, &r).Add(&e).Mul(kinv)
		if s.IsZero() {
			continue
		}
		if s.IsOverHalfOrder() {
			s.Negate()
		}
		var sig glow.Signature
		rb, sb := r.Bytes(), s.Bytes()
		copy(sig[:32], rb[:])
		copy(sig[32:], sb[:])
		return sig
	}
}
