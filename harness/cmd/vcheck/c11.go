package main

// C11 - no server behaviour can crash, wedge or mislead the client.
// (a) exhaustive enumeration of reply shapes against the real parser,
// (b) every sequence of per-attempt outcomes of a sync round for 1..3 servers,
// with the oracle applied after each round.

import (
	"bytes"
	"encoding/json"
	"fmt"
	"net"
	"os"
	"path/filepath"
	"sort"
	"strings"
	"time"
	"verifh/shim/vtime"

	"github.com/glowlabs-org/gca-backend/client"
	"github.com/glowlabs-org/gca-backend/glow"
	"github.com/glowlabs-org/gca-backend/server"

	"verifh/pool"
	"verifh/shim/vrand"
)

type c11Job struct {
	Part  string `json:"part"` // "shapes" | "rounds"
	Shard int    `json:"shard"`
	N     int    `json:"n"`
	// rounds
	Servers  int      `json:"servers"`
	Banned   []int    `json:"banned"`   // initially banned servers
	Outcomes []string `json:"outcomes"` // per attempt
	Perm     int      `json:"perm"`     // shuffle answer selector
	List     string   `json:"list"`     // what a rogue authorized server puts into the list of a successful reply ("" = one entry per configured server)
}

func c11Client(servers []scriptedServer, banned map[int]bool, energy *string) (*cliWorld, *netHub, error) {
	resetGlobals()
	scriptClientRandomness()
	hub := newHub()
	m := map[glow.PublicKey]client.GCAServer{}
	for i, s := range servers {
		e := s.entry()
		e.Banned = banned[i]
		m[s.Key.Pub] = e
	}
	cfg := cliConfig{Key: key("c11/client"), ShortID: 0, GCA: key("G1").Pub, HistoryOffset: 3, Servers: m, Energy: energy}
	w, err := newClientWorld(cfg)
	return w, hub, err
}

func genuineReply(dev glow.PublicKey, srv scriptedServer, list []server.AuthorizedServer) refReply {
	return refReply{DevKey: dev, Offset: 0, Servers: list, Timestamp: nowUnix()}
}

func c11Shapes(j c11Job) *jobReport {
	rep := &jobReport{Reasons: map[string]int{}}
	s1 := mkScripted("S1", 1)
	w, hub, err := c11Client([]scriptedServer{s1}, nil, nil)
	if err != nil {
		rep.fail("harness/setup", err.Error())
		return rep
	}
	poisoned := false
	defer func() {
		if poisoned {
			w.Abandon()
			return
		}
		if p := safely(func() { w.Close() }); p != "" {
			rep.fail("close-panic", p)
		}
		w.Cleanup()
	}()
	dev := w.Cfg.Key.Pub
	gca := key("G1")
	list := []server.AuthorizedServer{signedServer("S1", false, s1.Addr, s1.Port, gca.Priv), signedServer("S2", true, "10.0.0.2", 7000, gca.Priv)}
	gen := genuineReply(dev, s1, list)
	genuine := gen.encode(s1.Key.Priv)
	type shape struct {
		class string
		bytes []byte
	}
	var shapes []shape
	lengths := []int{}
	for l := 0; l <= 800; l++ {
		lengths = append(lengths, l)
	}
	lengths = append(lengths, 1000, 4096, 65535)
	for _, l := range lengths {
		// zeros with a length prefix announcing l bytes
		z := make([]byte, 2+l)
		z[0], z[1] = byte(l), byte(l>>8)
		shapes = append(shapes, shape{fmt.Sprintf("zeros/len=%s", lenClass(l)), z})
		// genuine reply cut to l bytes with the prefix rewritten
		if l <= len(genuine)-2 {
			c := append([]byte{byte(l), byte(l >> 8)}, genuine[2:2+l]...)
			shapes = append(shapes, shape{fmt.Sprintf("genuine-cut/len=%s", lenClass(l)), c})
		}
		// prefix announces l but fewer bytes follow (short read)
		if l > 0 {
			sr := append([]byte{byte(l), byte(l >> 8)}, make([]byte, l/2)...)
			shapes = append(shapes, shape{fmt.Sprintf("short-read/len=%s", lenClass(l)), sr})
		}
		// rogue server: arbitrary body, correctly timestamped and signed with the server's real key
		if l >= 72 {
			for _, fill := range []byte{0x00, 0xFF} {
				body := bytes.Repeat([]byte{fill}, l-72)
				body = append(body, make([]byte, 8)...)
				putU64(body[len(body)-8:], nowUnix())
				shapes = append(shapes, shape{fmt.Sprintf("rogue-fill%02x/len=%s", fill, lenClass(l)), frame(body, s1.Key.Priv)})
			}
			// rogue server binding the reply to the client's own key, rest arbitrary
			if l >= 72+32 {
				body := append([]byte(nil), dev[:]...)
				body = append(body, bytes.Repeat([]byte{0x01}, l-72-32)...)
				body = append(body, make([]byte, 8)...)
				putU64(body[len(body)-8:], nowUnix())
				shapes = append(shapes, shape{fmt.Sprintf("rogue-own-key/len=%s", lenClass(l)), frame(body, s1.Key.Priv)})
			}
		}
	}
	// rogue server: genuine layout, server-list region replaced by every length 0..150 of 0x01 bytes and of a cut genuine entry
	for extra := 0; extra <= 150; extra++ {
		r := gen
		r.Servers = nil
		body := r.body()
		head, tail := body[:576], body[576:] // tail = migration signature + timestamp
		for _, fill := range [][]byte{bytes.Repeat([]byte{0x01}, extra), cutTo(refServerBytes(list[0]), extra)} {
			b := append(append(append([]byte(nil), head...), fill...), tail...)
			shapes = append(shapes, shape{fmt.Sprintf("rogue-server-list/extra=%d", extra), frame(b, s1.Key.Priv)})
		}
	}
	// rogue server at the top of the two-byte length range: genuine layout, the list region filled with well-formed
	// 255-byte-location entries and ending in an entry that is cut short (its header announces more than is left);
	// every announced length 65100..65535, the cut entry (a) wherever the filling leaves it, (b) with only its
	// 34-byte header left
	for L := 65100; L <= 65535; L++ {
		r := gen
		r.Servers = nil
		body := r.body()
		head, tail := body[:576], body[576:]
		region := L - 64 - len(head) - len(tail)
		entry := func(loc int) []byte {
			e := make([]byte, 104+loc)
			for i := 0; i < 32; i++ {
				e[i] = byte(2 + i)
			}
			e[33] = byte(loc)
			for i := 0; i < loc; i++ {
				e[34+i] = 'a'
			}
			return e
		}
		for variant := 0; variant < 2; variant++ {
			var reg []byte
			left := region
			for left >= 359+34+104 {
				reg = append(reg, entry(255)...)
				left -= 359
			}
			if variant == 1 {
				// one more complete entry sized so that exactly a header is left
				if loc := left - 34 - 104; loc >= 0 && loc <= 255 {
					reg = append(reg, entry(loc)...)
					left = 34
				}
			}
			last := entry(255)
			if left < len(last) {
				last = last[:left]
			}
			reg = append(reg, last...)
			for len(reg) < region {
				reg = append(reg, 'a')
			}
			b := append(append(append([]byte(nil), head...), reg[:region]...), tail...)
			shapes = append(shapes, shape{fmt.Sprintf("rogue-server-list-top/len=%d/variant=%d", L, variant), frame(b, s1.Key.Priv)})
		}
	}
	// empty reply, single refusal byte, one byte of prefix only
	shapes = append(shapes, shape{"empty", nil}, shape{"refusal-byte", []byte{0}}, shape{"half-prefix", []byte{7}})
	before := fmt.Sprintf("%+v", w.C.VerifState())
	for i, sh := range shapes {
		if i%j.N != j.Shard {
			continue
		}
		data := sh.bytes
		hub.serveBytes(s1.tcpAddr(), func(req []byte) []byte { return data })
		var perr error
		p := safely(func() {
			_, _, _, _, _, perr = w.C.VerifServerSync(s1.entry(), s1.Key.Pub, gca.Pub)
		})
		rep.Evals++
		if p != "" {
			rep.fail("panic/parse/"+strings.Split(sh.class, "/")[0], map[string]interface{}{"shape": sh.class, "reply_len": len(data), "panic": firstLine(p)})
			continue
		}
		outcome := "rejected"
		if perr == nil {
			outcome = "accepted"
			rep.Accepted++
		}
		rep.Reasons[strings.Split(sh.class, "/")[0]+":"+outcome]++
		if !w.C.VerifTryLock() {
			rep.fail("lock-held-after-attempt", sh.class)
			poisoned = true
			return rep
		}
		if after := fmt.Sprintf("%+v", w.C.VerifState()); after != before {
			rep.fail("state-changed-by-parser", sh.class)
		}
	}
	rep.Samples = append(rep.Samples, fmt.Sprintf("%d reply shapes, genuine reply is %d bytes", len(shapes), len(genuine)))
	return rep
}

func cutTo(b []byte, n int) []byte {
	if n > len(b) {
		return append(append([]byte(nil), b...), make([]byte, n-len(b))...)
	}
	return b[:n]
}

func putU64(b []byte, v uint64) {
	for i := 0; i < 8; i++ {
		b[i] = byte(v >> (8 * i))
	}
}

func lenClass(l int) string {
	switch {
	case l < 72:
		return "<72"
	case l < 136:
		return "72..135"
	case l < 576:
		return "136..575"
	case l < 712:
		return "576..711"
	}
	return ">=712"
}

// ---- (b) sync rounds ----

// c11Stall: the only server accepts the sync connection and stays silent. The report loop must go on (it launches
// its rounds itself here: the last successful sync on record is seven hours old) and must try again later -
// whatever happens to the round that is stuck.
func c11Stall() *jobReport {
	rep := &jobReport{Reasons: map[string]int{}}
	s1 := mkScripted("S1", 1)
	genesis := int64(glow.GenesisTime)
	energy := fmt.Sprintf("timestamp,energy (mWh)\n%d,100\n", genesis+300*5)
	w, hub, err := c11Client([]scriptedServer{s1}, nil, &energy)
	if err != nil {
		rep.fail("harness/setup", err.Error())
		return rep
	}
	stall := make(chan struct{})
	dials := 0
	hub.TCP[s1.tcpAddr()] = func() (net.Conn, error) {
		dials++
		return &lazyConn{Stall: stall}, nil
	}
	// restart with an old stamp so that the loop wants to sync at its first opportunity
	if err := w.Close(); err != nil {
		rep.fail("harness/close", err.Error())
		return rep
	}
	must(os.WriteFile(filepath.Join(w.Dir, client.LastSyncFile), []byte(fmt.Sprint(int64(nowUnix())-7*3600)), 0644))
	if err := w.start(); err != nil {
		rep.fail("client-restart-fails", err.Error())
		return rep
	}
	sent := len(hub.Log)
	for i := 0; i < 13; i++ {
		if i == 6 {
			w.setEnergy(energy + fmt.Sprintf("%d,200\n", genesis+300*6))
		}
		if err := w.tick(); err != nil {
			rep.fail("send-loop-stuck-while-a-round-is-stalled", map[string]interface{}{"tick": i, "err": err.Error()})
			close(stall)
			w.Abandon()
			return rep
		}
		// a freshly launched round first sleeps one send period (a distinct duration: the loop's own sleep carries a
		// scripted jitter of 1 ms); end that sleep so that the round goes on to dial
		for k := 0; k < 3; k++ {
			time.Sleep(time.Millisecond)
			vtime.FireMatch(func(pi vtime.PendingInfo) bool { return pi.D == cc.SendReportTime }, false, time.Second)
		}
	}
	// rounds launched by the last ticks may not have reached their dial yet: give them (real) time, within reason
	for deadline := time.Now().Add(15 * time.Second); dials < 2 && time.Now().Before(deadline); {
		vtime.FireMatch(func(pi vtime.PendingInfo) bool { return pi.D == cc.SendReportTime }, false, time.Second)
		time.Sleep(2 * time.Millisecond)
	}
	rep.Evals++
	if len(hub.Log) <= sent {
		rep.fail("no-report-while-a-round-is-stalled", map[string]interface{}{"datagrams": len(hub.Log) - sent})
	}
	hub.mu.Lock()
	tcpDials := 0
	for _, d := range hub.Dials {
		if strings.HasPrefix(d, "tcp:") {
			tcpDials++
		}
	}
	hub.mu.Unlock()
	_ = tcpDials
	if dials < 2 {
		rep.fail("no-later-sync-attempt-while-a-round-is-stalled", map[string]interface{}{"ticks": 13, "connections_seen_by_the_server": dials})
	}
	rep.Reasons[fmt.Sprintf("stalled server: %d connections in 13 ticks", dials)]++
	close(stall) // the stuck rounds fail now and return
	time.Sleep(5 * time.Millisecond)
	if p := safely(func() { w.Close() }); p != "" {
		rep.fail("close-panic", p)
	}
	w.Cleanup()
	return rep
}

func c11Round(j c11Job) *jobReport {
	rep := &jobReport{Reasons: map[string]int{}}
	var servers []scriptedServer
	for i := 0; i < j.Servers; i++ {
		servers = append(servers, mkScripted(fmt.Sprintf("S%d", i+1), i+1))
	}
	banned := map[int]bool{}
	for _, b := range j.Banned {
		banned[b] = true
	}
	genesis := int64(glow.GenesisTime)
	energy := fmt.Sprintf("timestamp,energy (mWh)\n%d,100\n", genesis+300*5)
	w, hub, err := c11Client(servers, banned, &energy)
	if err != nil {
		rep.fail("harness/setup", err.Error())
		return rep
	}
	poisoned := false
	defer func() {
		if poisoned {
			w.Abandon()
			return
		}
		if p := safely(func() { w.Close() }); p != "" {
			rep.fail("close-panic", p)
		}
		w.Cleanup()
	}()
	cfgDesc := fmt.Sprintf("servers=%d banned=%v outcomes=%v perm=%d list=%q", j.Servers, j.Banned, j.Outcomes, j.Perm, j.List)
	gca := key("G1")
	dev := w.Cfg.Key.Pub
	attempt := 0
	var contacted []string
	// a successful reply announces that the last configured server is banned
	var list []server.AuthorizedServer
	for i, s := range servers {
		list = append(list, signedServer(s.Name, i == len(servers)-1 && len(servers) > 1, s.Addr, s.Port, gca.Priv))
	}
	// A rogue (but authorized) server chooses which genuine GCA-signed entries it lists and in which order.
	extra := mkScripted("SX", 9)
	xe := func(b bool) server.AuthorizedServer {
		return signedServer(extra.Name, b, extra.Addr, extra.Port, gca.Priv)
	}
	switch j.List {
	case "xban-xauth":
		list = append(list, xe(true), xe(false))
	case "xauth-xban":
		list = append(list, xe(false), xe(true))
	case "xban-alone-first":
		list = append([]server.AuthorizedServer{xe(true)}, append(list, xe(false))...)
	case "kban-kauth":
		last := servers[len(servers)-1]
		list = append(list[:len(list)-1], signedServer(last.Name, true, last.Addr, last.Port, gca.Priv), signedServer(last.Name, false, last.Addr, last.Port, gca.Priv))
	}
	hub.TCP[extra.tcpAddr()] = func() (net.Conn, error) {
		contacted = append(contacted, extra.Name)
		attempt++
		return nil, fmt.Errorf("connection refused")
	}
	for _, s := range servers {
		s := s
		hub.TCP[s.tcpAddr()] = func() (net.Conn, error) {
			k := attempt
			attempt++
			contacted = append(contacted, s.Name)
			out := "refused"
			if k < len(j.Outcomes) {
				out = j.Outcomes[k]
			}
			good := genuineReply(dev, s, list).encode(s.Key.Priv)
			switch out {
			case "refused":
				return nil, fmt.Errorf("connection refused")
			case "reset":
				return &lazyConn{handler: func([]byte) []byte { return nil }, ReadErr: fmt.Errorf("connection reset by peer")}, nil
			case "short":
				return &lazyConn{handler: func([]byte) []byte { return good[:len(good)/2] }}, nil
			case "badsig":
				b := append([]byte(nil), good...)
				b[len(b)-1] ^= 1
				return &lazyConn{handler: func([]byte) []byte { return b }}, nil
			case "tiny":
				return &lazyConn{handler: func([]byte) []byte { return []byte{10, 0, 1, 2, 3, 4, 5, 6, 7, 8, 9, 10} }}, nil
			default: // success
				return &lazyConn{handler: func([]byte) []byte { return good }}, nil
			}
		}
	}
	// shuffle answers: permutation selector
	calls := 0
	vrand.SetInt(func(max int64) int64 {
		calls++
		return int64(j.Perm+calls) % max
	})
	knownBanned := map[glow.PublicKey]bool{}
	for i, s := range servers {
		if banned[i] {
			knownBanned[s.Key.Pub] = true
		}
	}
	checkAfter := func(stage string) bool {
		if !w.C.VerifTryLock() {
			rep.fail("lock-held-after-round", map[string]interface{}{"config": cfgDesc, "stage": stage})
			poisoned = true
			return false
		}
		st := w.C.VerifState()
		for k := range knownBanned {
			if !st.Servers[k].Banned {
				rep.fail("ban-forgotten", map[string]interface{}{"config": cfgDesc, "stage": stage})
			}
		}
		for k, s := range st.Servers {
			if s.Banned {
				knownBanned[k] = true
			}
		}
		if st.Servers[st.PrimaryServer].Banned && (stage == "start" || stage == "after-restart") {
			// start-up selects a primary: it must not be a server known to be banned while another one is available.
			// (After a round the primary may be the server that has just reported its own ban; keeping it until the
			// next selection is not a selection.)
			nonBanned := 0
			for _, s := range st.Servers {
				if !s.Banned {
					nonBanned++
				}
			}
			if nonBanned > 0 {
				rep.fail("banned-server-selected-at-startup", map[string]interface{}{"config": cfgDesc, "stage": stage})
			}
		}
		// persisted map = adopted map
		raw, err := os.ReadFile(filepath.Join(w.Dir, client.GCAServerMapFile))
		if err == nil {
			disk, derr := client.UntrustedDeserializeGCAServerMap(raw)
			if derr != nil {
				rep.fail("server-file-corrupt", derr.Error())
			} else {
				for k := range knownBanned {
					if stage != "start" && !disk[k].Banned && st.Servers[k].Banned && stage == "after-restart" {
						rep.fail("ban-not-persisted", map[string]interface{}{"config": cfgDesc, "stage": stage})
					}
				}
			}
		}
		return true
	}
	if !checkAfter("start") {
		return rep
	}
	sb, _ := os.ReadFile(filepath.Join(w.Dir, client.LastSyncFile))
	syncStamp := string(sb)
	vtime.Advance(3 * time.Second) // a successful round would write a different stamp
	ok, p, hung := w.syncRound(5)
	rep.Evals++
	if p != "" {
		poisoned = true
		rep.fail("panic/sync-round/"+panicOutcome(j.Outcomes, attempt), map[string]interface{}{"config": cfgDesc, "panic": firstLine(p)})
		return rep
	}
	if hung {
		poisoned = true
		rep.fail("sync-round-hangs", cfgDesc)
		return rep
	}
	rep.Reasons[fmt.Sprintf("round ok=%v attempts=%d", ok, attempt)]++
	succeeded := false
	for k := 0; k < attempt && k < len(j.Outcomes); k++ {
		if j.Outcomes[k] == "success" {
			succeeded = true
		}
	}
	if ok != succeeded {
		rep.fail(fmt.Sprintf("round-result-misleading/reported=%v", ok), map[string]interface{}{"config": cfgDesc, "attempts_made": attempt, "an_attempt_succeeded": succeeded})
	}
	if !succeeded {
		if b, err := os.ReadFile(filepath.Join(w.Dir, client.LastSyncFile)); err == nil && string(b) != syncStamp {
			rep.fail("failed-round-recorded-as-successful-sync", map[string]interface{}{"config": cfgDesc, "last_sync_file": string(b)})
		}
		if len(hub.Log) > 0 {
			rep.fail("failed-round-emits-datagrams", map[string]interface{}{"config": cfgDesc, "datagrams": len(hub.Log)})
		}
	}
	if ok {
		rep.Accepted++
	}
	if attempt > 5 {
		rep.fail("more-than-five-attempts", cfgDesc)
	}
	// never contact a server known to be banned, never the same failed server twice
	seenC := map[string]bool{}
	for i, n := range contacted {
		for si, s := range servers {
			if s.Name == n && banned[si] {
				rep.fail("banned-server-contacted", map[string]interface{}{"config": cfgDesc, "contacted": contacted})
			}
		}
		if seenC[n] && i > 0 {
			rep.fail("failed-server-retried-in-same-round", map[string]interface{}{"config": cfgDesc, "contacted": contacted})
		}
		seenC[n] = true
	}
	if ok && succeeded {
		// every ban the accepted reply carried is knowledge from now on
		for _, e := range list {
			if e.Banned {
				knownBanned[e.PublicKey] = true
			}
		}
	}
	if !checkAfter("after-round") {
		return rep
	}
	// the reporting loop is alive: a new reading produces a datagram
	nBefore := len(hub.Log)
	w.setEnergy(energy + fmt.Sprintf("%d,200\n", genesis+300*6))
	if err := w.tick(); err != nil {
		rep.fail("send-loop-stuck", map[string]interface{}{"config": cfgDesc, "err": err.Error()})
		poisoned = true
		return rep
	}
	if len(hub.Log) <= nBefore {
		st := w.C.VerifState()
		if !st.Servers[st.PrimaryServer].Banned || true {
			rep.fail("no-report-after-round", map[string]interface{}{"config": cfgDesc})
		}
	}
	// a later round is attempted, and it contacts no server known to be banned
	bannedBeforeSecond := map[string]bool{}
	for _, sv := range append(append([]scriptedServer{}, servers...), extra) {
		if knownBanned[sv.Key.Pub] {
			bannedBeforeSecond[sv.Name] = true
		}
	}
	c0 := len(contacted)
	a0 := attempt
	j2 := len(j.Outcomes)
	_ = j2
	_, p, hung = w.syncRound(6)
	if p != "" || hung {
		poisoned = true
		rep.fail("second-round-fails", map[string]interface{}{"config": cfgDesc, "panic": firstLine(p), "hung": hung})
		return rep
	}
	live := 0
	st := w.C.VerifState()
	for _, s := range st.Servers {
		if !s.Banned {
			live++
		}
	}
	for _, n := range contacted[c0:] {
		if bannedBeforeSecond[n] {
			rep.fail("known-banned-server-contacted", map[string]interface{}{"config": cfgDesc, "contacted_in_second_round": contacted[c0:]})
		}
	}
	if live > 0 && attempt == a0 {
		rep.fail("no-later-sync-attempt", cfgDesc)
	}
	if !checkAfter("after-second-round") {
		return rep
	}
	// restart keeps the knowledge
	if err := w.Restart(); err != nil {
		rep.fail("client-restart-fails", map[string]interface{}{"config": cfgDesc, "err": err.Error()})
		poisoned = true
		return rep
	}
	checkAfter("after-restart")
	var names []string
	for _, c := range contacted {
		names = append(names, c)
	}
	sort.Strings(names)
	return rep
}

func panicOutcome(outs []string, attempt int) string {
	if attempt-1 >= 0 && attempt-1 < len(outs) {
		return outs[attempt-1]
	}
	return "?"
}

func init() {
	pool.Register("c11", func(data json.RawMessage) (interface{}, error) {
		var j c11Job
		if err := json.Unmarshal(data, &j); err != nil {
			return nil, err
		}
		if j.Part == "shapes" {
			return c11Shapes(j), nil
		}
		if j.Part == "stall" {
			return c11Stall(), nil
		}
		return c11Round(j), nil
	})
	checks["C11"] = func(tier string) int {
		run := newRun("C11", tier, "exploration")
		var jobs []interface{}
		for s := 0; s < 16; s++ {
			jobs = append(jobs, c11Job{Part: "shapes", Shard: s, N: 16})
		}
		outs := []string{"refused", "reset", "short", "badsig", "tiny", "success"}
		depth := 3
		if tier == "thorough" {
			depth = 5
		}
		var seqs [][]string
		var rec func(cur []string)
		rec = func(cur []string) {
			seqs = append(seqs, append([]string(nil), cur...))
			if len(cur) == depth {
				return
			}
			for _, o := range outs {
				if len(cur) > 0 && cur[len(cur)-1] == "success" {
					continue // the round ends with the first success
				}
				rec(append(cur, o))
			}
		}
		rec(nil)
		for servers := 1; servers <= 3; servers++ {
			bansets := [][]int{nil}
			if servers >= 2 {
				bansets = append(bansets, []int{0})
			}
			all := []int{}
			for i := 0; i < servers; i++ {
				all = append(all, i)
			}
			bansets = append(bansets, all)
			for _, bs := range bansets {
				for _, sq := range seqs {
					if len(sq) > servers-len(bs) && len(sq) > 0 && servers-len(bs) >= 0 && len(sq) > servers-len(bs)+0 {
						// more scripted outcomes than servers that can be tried: the extra ones are never consumed
						if len(sq) > servers-len(bs) {
							continue
						}
					}
					perms := 1
					if servers == 2 {
						perms = 2
					} else if servers == 3 {
						perms = 3
					}
					for pm := 0; pm < perms; pm++ {
						jobs = append(jobs, c11Job{Part: "rounds", Servers: servers, Banned: bs, Outcomes: sq, Perm: pm})
					}
				}
			}
		}
		jobs = append(jobs, c11Job{Part: "stall"})
		lockPaths(run, "client", "glow")
		// five and six configured servers: every way for all five attempts to fail with one kind of failure,
		// mixed failures, and success on exactly the fifth attempt
		for _, servers := range []int{4, 5, 6} {
			for _, o := range outs[:5] {
				jobs = append(jobs, c11Job{Part: "rounds", Servers: servers, Outcomes: []string{o, o, o, o, o}})
			}
			jobs = append(jobs, c11Job{Part: "rounds", Servers: servers, Outcomes: []string{"refused", "reset", "short", "badsig", "tiny"}})
			jobs = append(jobs, c11Job{Part: "rounds", Servers: servers, Outcomes: []string{"refused", "reset", "short", "badsig", "success"}})
			jobs = append(jobs, c11Job{Part: "rounds", Servers: servers, Outcomes: []string{"tiny", "tiny", "tiny", "success"}})
		}
		for servers := 1; servers <= 3; servers++ {
			for _, l := range []string{"xban-xauth", "xauth-xban", "xban-alone-first", "kban-kauth"} {
				if l == "kban-kauth" && servers == 1 {
					continue
				}
				for pm := 0; pm < servers; pm++ {
					jobs = append(jobs, c11Job{Part: "rounds", Servers: servers, Outcomes: []string{"success"}, Perm: pm, List: l})
					if servers > 1 {
						jobs = append(jobs, c11Job{Part: "rounds", Servers: servers, Outcomes: []string{"badsig", "success"}, Perm: pm, List: l})
					}
				}
			}
		}
		run.Assumption("delays are not modelled (virtual time); a hung dial is represented by refusal/reset; the Go map iteration order inside the client is not controlled, the harness observes which server was contacted")
		return runJobCheck(run, "c11", jobs, "(a) reply shapes: every length 0..800, 1000, 4096, 65535 as zeros, as the genuine reply cut with rewritten prefix, as a short read, and as bodies of 0x00/0xFF/own-key bytes correctly timestamped and signed with the contacted server's real key, plus every server-list region length 0..150 signed by the real key, plus every announced length 65100..65535 with the list region ending in a cut entry (two placements), all against the real parser; (b) every sequence of per-attempt outcomes {refused, reset, short read, bad signature, tiny reply, success} for 1..3 configured servers with none/one/all banned and several shuffle answers, through the real sync round, followed by a send-loop tick, a second round and a client restart; (c) a server that accepts the sync connection and stays silent while the real report loop runs 13 iterations: reports keep going out and another round is attempted; distinct = (shape class, verdict) and (round result, attempts) classes")
	}
}

var _ = server.AuthorizedServer{}
