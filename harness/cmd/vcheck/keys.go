package main

import (
	"fmt"
	"strings"
	"sync"

	"github.com/ethereum/go-ethereum/crypto"
	"github.com/glowlabs-org/gca-backend/glow"
)

// Deterministic key pairs derived from names, so that every run, worker and
// replay sees the same keys. Keys are searched until the compressed public
// key has the 0x02 prefix the repository requires.
type keyPair struct {
	Pub  glow.PublicKey
	Priv glow.PrivateKey
}

var (
	keyMu    sync.Mutex
	keyCache = map[string]keyPair{}
)

func key(name string) keyPair {
	keyMu.Lock()
	defer keyMu.Unlock()
	if k, ok := keyCache[name]; ok {
		return k
	}
	if name == "ZERO" {
		// the all-zero public key: nobody can sign for it, but a registration may name it
		keyCache[name] = keyPair{}
		return keyPair{}
	}
	for i := 0; ; i++ {
		seed := crypto.Keccak256([]byte(fmt.Sprintf("verif-key/%s/%d", name, i)))
		pk, err := crypto.ToECDSA(seed)
		if err != nil {
			continue
		}
		comp := crypto.CompressPubkey(&pk.PublicKey)
		if comp[0] != 0x02 {
			continue
		}
		// names ending in "-NL" / "-CR" get a public key whose LAST byte is a line feed / carriage return (key files
		// hold raw bytes; whatever treats them as text must not lose these)
		if strings.HasSuffix(name, "-NL") && comp[32] != 0x0a {
			continue
		}
		if strings.HasSuffix(name, "-CR") && comp[32] != 0x0d {
			continue
		}
		var k keyPair
		copy(k.Priv[:], seed)
		copy(k.Pub[:], comp[1:])
		keyCache[name] = k
		return k
	}
}
