package main

// C12 - no untrusted input or peer failure can crash or wedge the server.
// Exhaustive enumeration of a request grid (every handler x method x query /
// body variants, TCP sync requests of 0..4 bytes, the datagram alphabet) over
// clock configurations, with an authorized peer that is down; plus shutdown
// with idle / half-sent TCP connections on the real sockets (real time).

import (
	"encoding/json"
	"fmt"
	"net"
	"os"
	"os/exec"
	"runtime"
	"strings"
	"sync"
	"time"

	"github.com/glowlabs-org/gca-backend/glow"
	"github.com/glowlabs-org/gca-backend/server"

	"verifh/pool"
)

type c12Job struct {
	Volume    bool `json:"volume"` // more reports / authorizations than the in-memory "recent" lists hold
	D         int  `json:"d"`      // now - offset (clock moved without letting the rotation loop run)
	PeerDown  bool `json:"peer_down"`
	Datagrams bool `json:"datagrams"`
	Rotations int  `json:"rotations"` // forced rotations before the requests: window offset 2016*Rotations, one archived week each
}

type httpCase struct {
	method, url string
	body        []byte
	class       string
}

func c12Requests(w *stdWorld) []httpCase {
	var out []httpCase
	methods := []string{"GET", "POST", "PUT"}
	add := func(path string, queries []string, bodies [][]byte, class string) {
		for _, m := range methods {
			for _, q := range queries {
				for _, b := range bodies {
					u := "/api/v1/" + path
					if q != "" {
						u += "?" + q
					}
					out = append(out, httpCase{m, u, b, path})
				}
			}
		}
	}
	none := [][]byte{nil}
	off := w.M.Offset
	var tsos []string
	for _, t := range []string{"", "timeslot_offset=", "timeslot_offset=abc", "timeslot_offset=-1", "timeslot_offset=7", "timeslot_offset=0",
		fmt.Sprintf("timeslot_offset=%d", off), fmt.Sprintf("timeslot_offset=%d", off+2016), fmt.Sprintf("timeslot_offset=%d", off+4032),
		"timeslot_offset=4294965248", "timeslot_offset=4294967296", "timeslot_offset=99999999999999999999", "timeslot_offset=2016&timeslot_offset=0"} {
		for _, n := range []string{"", "&insert_false_negatives=true", "&insert_false_negatives=x"} {
			tsos = append(tsos, strings.TrimPrefix(t+n, "&"))
		}
	}
	add("all-device-stats", tsos, none, "stats")
	nobody := key("nobody").Pub
	pkq := []string{"", "publicKey=", "publicKey=zz", "publicKey=abcd", fmt.Sprintf("publicKey=%x", w.A.Pub[:]), fmt.Sprintf("publicKey=%x", w.X.Pub[:]),
		fmt.Sprintf("publicKey=%x", nobody[:]), fmt.Sprintf("publicKey=%x00", w.A.Pub[:])}
	add("recent-reports", pkq, none, "recent")
	add("equipment", []string{"", "x=1"}, none, "equipment")
	add("geo-stats", []string{"", "latitude=abc&longitude=1", "latitude=1", "latitude=&longitude="}, none, "geo")
	add("archive", []string{""}, [][]byte{nil, []byte("x")}, "archive")
	// JSON bodies
	ea := w.signAuth(authFor(50, key("k50"), 1000), w.GCA.Priv)
	eaj, _ := json.Marshal(ea)
	eaBad := authFor(51, key("k51"), 1000)
	eabj, _ := json.Marshal(eaBad)
	junk := [][]byte{nil, []byte(""), []byte("{"), []byte("null"), []byte("[]"), []byte(`{"ShortID":"x"}`), []byte(`{"ShortID":-1}`), []byte(`{"PublicKey":[1,2,3]}`), []byte(`{"Latitude":1e999}`), []byte(strings.Repeat("[", 10000))}
	add("authorize-equipment", []string{""}, append(junk, eaj, eabj, eaj[:len(eaj)/2]), "authorize")
	gr := server.GCARegistration{GCAKey: key("G9").Pub}
	gr.Signature = glow.Sign(refRegistrationSigningBytes(gr.GCAKey), w.Temp.Priv)
	grj, _ := json.Marshal(gr)
	add("register-gca", []string{""}, append(junk, grj, grj[:len(grj)/2]), "register")
	as := signedServer("S7", false, "127.0.0.1", 1, w.GCA.Priv)
	asj, _ := json.Marshal(as)
	asBad := signedServer("S8", false, "127.0.0.1", 1, w.Temp.Priv)
	asbj, _ := json.Marshal(asBad)
	add("authorized-servers", []string{""}, append(junk, asj, asbj, asj[:len(asj)/2], []byte(`{"Location":5}`)), "servers")
	em := server.EquipmentMigration{Equipment: w.A.Pub, NewGCA: key("G3").Pub, NewShortID: 9}
	em.Signature = glow.Sign(refMigrationSigningBytes(em), w.GCA.Priv)
	emj, _ := json.Marshal(em)
	em2 := em
	em2.NewServers = []server.AuthorizedServer{asBad}
	em2.Signature = glow.Sign(refMigrationSigningBytes(em2), w.GCA.Priv)
	em2j, _ := json.Marshal(em2)
	add("equipment-migrate", []string{""}, append(junk, emj, em2j, emj[:len(emj)/2], []byte(`{"NewServers":[null]}`), []byte(`{"NewServers":null}`)), "migrate")
	out = append(out, httpCase{"GET", "/api/v1/", nil, "unknown-path"}, httpCase{"GET", "/", nil, "unknown-path"}, httpCase{"GET", "/api/v1/equipment/../archive", nil, "unknown-path"})
	return out
}

// c12Volume pushes more accepted reports and authorizations through the server than its bounded
// "recent" lists hold (their truncation code runs only then).
func c12Volume() *jobReport {
	rep := &jobReport{Reasons: map[string]int{}}
	w, err := newStdWorld("c12vol")
	if err != nil {
		rep.fail("harness/setup", err.Error())
		return rep
	}
	poisoned := false
	defer func() {
		if poisoned {
			w.Abandon()
			return
		}
		if p := safely(func() { w.Close() }); p != "" {
			rep.fail("close-panic", firstLine(p))
		}
		w.Cleanup()
	}()
	w.setNow(1000)
	n := 0
	for _, d := range []struct {
		id uint32
		k  keyPair
	}{{1, w.A}, {2, w.B}} {
		for ts := uint32(570); ts <= 1430; ts++ {
			dg := signedReport(d.id, ts, 5, d.k.Priv)
			if p := safely(func() { w.S.VerifInjectDatagram(dg) }); p != "" {
				rep.fail("panic/datagram/volume", map[string]interface{}{"accepted_so_far": n, "panic": tailStr(p, 1500)})
				poisoned = true
				return rep
			}
			w.M.datagram(dg, w.Now)
			n++
			rep.Evals++
		}
	}
	snap := w.S.VerifSnapshot()
	if len(snap.RecentReports) > sc.MaxRecentReports {
		rep.fail("recent-reports-list-unbounded", fmt.Sprintf("%d entries, limit %d", len(snap.RecentReports), sc.MaxRecentReports))
	}
	if sig, what := w.compareState(); sig != "" {
		rep.fail("volume-"+sig, what)
	}
	for i := 0; i < sc.MaxRecentEquipmentAuths+60; i++ {
		ea := w.signAuth(authFor(uint32(1000+i), key(fmt.Sprintf("vol%d", i%50)), 10), w.GCA.Priv)
		ea.PublicKey[0], ea.PublicKey[1] = byte(i), byte(i>>8) // distinct keys without 1000 key derivations
		ea = w.signAuth(ea, w.GCA.Priv)
		var code int
		if p := safely(func() { code, _ = w.doAuthorize(ea) }); p != "" || code != 200 {
			rep.fail("panic-or-refusal/authorize/volume", map[string]interface{}{"authorizations_so_far": i, "code": code, "panic": tailStr(p, 1500)})
			poisoned = p != ""
			return rep
		}
		rep.Evals++
	}
	snap = w.S.VerifSnapshot()
	if len(snap.RecentAuths) > sc.MaxRecentEquipmentAuths {
		rep.fail("recent-authorizations-list-unbounded", fmt.Sprintf("%d entries, limit %d", len(snap.RecentAuths), sc.MaxRecentEquipmentAuths))
	}
	if sig, what := w.compareState(); sig != "" {
		rep.fail("volume-"+sig, what)
	}
	if mu, smu := w.S.VerifTryLocks(); !mu || !smu {
		rep.fail("lock-held/after-volume", nil)
		poisoned = true
	}
	rep.Reasons[fmt.Sprintf("volume: %d reports, %d authorizations", n, sc.MaxRecentEquipmentAuths+60)]++
	rep.Samples = append(rep.Samples, fmt.Sprintf("volume: %d accepted reports (list limit %d), %d authorizations (list limit %d)", n, sc.MaxRecentReports, sc.MaxRecentEquipmentAuths+60, sc.MaxRecentEquipmentAuths))
	rep.Accepted = n
	return rep
}

func c12Run(j c12Job) *jobReport {
	if j.Volume {
		return c12Volume()
	}
	rep := &jobReport{Reasons: map[string]int{}}
	w, err := newStdWorld("c12")
	if err != nil {
		rep.fail("harness/setup", err.Error())
		return rep
	}
	poisoned := false
	defer func() {
		if poisoned {
			w.Abandon()
			return
		}
		if p := safely(func() { w.Close() }); p != "" {
			rep.fail("close-panic", firstLine(p))
		}
		w.Cleanup()
	}()
	cfg := fmt.Sprintf("now=offset+%d peer_down=%v rotations=%d", j.D, j.PeerDown, j.Rotations)
	if j.PeerDown {
		as := signedServer("S1", false, "127.0.0.1", 1, w.GCA.Priv) // nothing listens on port 1
		b, _ := json.Marshal(as)
		if code, _ := w.httpDo("POST", "/api/v1/authorized-servers", b); code != 200 {
			rep.fail("harness/peer", fmt.Sprint(code))
			return rep
		}
	}
	// some data to serve, then the clock moves on without the rotation loop running
	w.setNow(100)
	// devices whose capacity is at the edge of its type: 2^64-1, the smallest capacity whose 1.35-fold needs 65 bits,
	// and 0; each reports once
	for i, capa := range []uint64{1<<64 - 1, 13664254869414482679, 13664254869414482678, 0} {
		id := uint32(20 + i)
		k := key(fmt.Sprintf("c12/cap%d", i))
		if code, _ := w.doAuthorize(w.signAuth(authFor(id, k, capa), w.GCA.Priv)); code != 200 {
			rep.fail("edge-capacity-authorization-refused", map[string]interface{}{"capacity": capa, "status": code})
			continue
		}
		dg := signedReport(id, 100, 500, k.Priv)
		if p := safely(func() { w.S.VerifInjectDatagram(dg) }); p != "" {
			rep.fail("panic/report-of-edge-capacity-device", map[string]interface{}{"capacity": capa, "panic": firstLine(p)})
			poisoned = true
			return rep
		}
		w.M.datagram(dg, 100)
		rep.Evals++
	}
	w.S.VerifInjectDatagram(signedReport(1, 100, 500, w.A.Priv))
	w.M.datagram(signedReport(1, 100, 500, w.A.Priv), 100)
	for i := 0; i < j.Rotations; i++ {
		w.S.VerifRotate()
		w.M.rotate()
		w.setNow(w.M.Offset + 100)
		w.S.VerifInjectDatagram(signedReport(1, w.M.Offset+100, 500, w.A.Priv))
		w.M.datagram(signedReport(1, w.M.Offset+100, 500, w.A.Priv), w.Now)
	}
	w.setNow(w.M.Offset + uint32(j.D))
	alive := func(after string) bool {
		if mu, smu := w.S.VerifTryLocks(); !mu || !smu {
			rep.fail("lock-held/after-"+strings.Split(after, " ")[0], map[string]interface{}{"config": cfg, "after": after})
			poisoned = true
			return false
		}
		if sig, what := w.heldWriteViolation(); sig != "" {
			rep.fail(sig, map[string]interface{}{"config": cfg, "what": what})
			w.HeldWrite = 0
		}
		var code int
		if p := safely(func() { code, _ = w.httpDo("GET", "/api/v1/equipment", nil) }); p != "" || code != 200 {
			rep.fail("liveness-probe-fails/after-"+strings.Split(after, " ")[0], map[string]interface{}{"config": cfg, "after": after, "code": code, "panic": firstLine(p)})
			poisoned = true
			return false
		}
		return true
	}
	for _, c := range c12Requests(w) {
		var code int
		p := safely(func() { code, _ = w.httpDo(c.method, c.url, c.body) })
		rep.Evals++
		desc := fmt.Sprintf("%s %s body=%.40q", c.method, c.url, c.body)
		if p != "" {
			rep.fail("panic/http/"+c.class, map[string]interface{}{"config": cfg, "request": desc, "panic": tailStr(p, 1500)})
			poisoned = true
			return rep
		}
		rep.Reasons[fmt.Sprintf("%s %d", c.class, code)]++
		if len(rep.Samples) < 3 && rep.Evals%97 == 5 {
			rep.Samples = append(rep.Samples, fmt.Sprintf("%s: %s -> %d", cfg, desc, code))
		}
		if code == 200 {
			rep.Accepted++
		}
		if !alive(desc) {
			return rep
		}
	}
	// TCP sync requests of 0..4 bytes (+ trailing garbage), known / unknown / banned id
	for _, id := range []uint32{1, 3, 999, 0, 1<<32 - 1} {
		full := idBytes(id)
		for l := 0; l <= 4; l++ {
			_, p := w.syncRaw(full[:l])
			rep.Evals++
			if p != "" {
				rep.fail("panic/sync", map[string]interface{}{"config": cfg, "request_bytes": l, "id": id, "panic": tailStr(p, 1500)})
				poisoned = true
				return rep
			}
		}
		_, p := w.syncRaw(append(full, 1, 2, 3))
		if p != "" {
			rep.fail("panic/sync", map[string]interface{}{"config": cfg, "id": id, "panic": tailStr(p, 1500)})
			poisoned = true
			return rep
		}
		rep.Reasons["sync request"]++
		if !alive(fmt.Sprintf("sync id=%d", id)) {
			return rep
		}
	}
	// the datagram alphabet of C01 (reduced or full)
	for _, c := range c01Alphabet(w, j.Datagrams) {
		p := safely(func() { w.S.VerifInjectDatagram(c.Bytes) })
		rep.Evals++
		if p != "" {
			_, why := w.M.acceptable(c.Bytes, w.Now)
			rep.fail("panic/datagram/"+why, map[string]interface{}{"config": cfg, "datagram": c.Desc, "panic": tailStr(p, 1500)})
			poisoned = true
			return rep
		}
	}
	rep.Reasons["datagram"]++
	// background jobs at this clock value
	for _, op := range []string{"impact", "rot"} {
		var p string
		if op == "impact" {
			p = safely(func() { w.S.VerifImpactJob() })
		} else {
			p = safely(func() { w.S.VerifRotate() })
		}
		rep.Evals++
		if p != "" {
			rep.fail("panic/job/"+op, map[string]interface{}{"config": cfg, "panic": tailStr(p, 1500)})
			poisoned = true
			return rep
		}
		if !alive(op) {
			return rep
		}
	}
	return rep
}

// ---- shutdown with idle connections, on the real sockets and the real clock ----

type shutdownResult struct {
	Scenario string  `json:"scenario"`
	Returned bool    `json:"returned"`
	Seconds  float64 `json:"seconds"`
	Witness  string  `json:"witness,omitempty"`
	Err      string  `json:"err,omitempty"`
}

func c12ShutdownBody() {
	type scen struct {
		name  string
		conns int
		bytes int
	}
	scens := []scen{{"no connections", 0, 0}, {"one idle connection", 1, 0}, {"three idle connections", 3, 0}, {"one half-sent request", 1, 2}}
	results := make([]shutdownResult, len(scens))
	bound := 4 * sc.ServerShutdownTime
	var wg sync.WaitGroup
	for i, scn := range scens {
		wg.Add(1)
		go func(i int, scn scen) {
			defer wg.Done()
			r := shutdownResult{Scenario: scn.name}
			defer func() { results[i] = r }()
			dir := freshDir("shut")
			defer os.RemoveAll(dir)
			prepareServerDir(dir, "c12shutdown", true)
			s, err := server.NewGCAServer(dir)
			if err != nil {
				r.Err = err.Error()
				return
			}
			_, tcp, _ := s.Ports()
			var conns []net.Conn
			for k := 0; k < scn.conns; k++ {
				c, err := net.Dial("tcp", fmt.Sprintf("127.0.0.1:%d", tcp))
				if err != nil {
					r.Err = err.Error()
					return
				}
				if scn.bytes > 0 {
					c.Write(make([]byte, scn.bytes))
				}
				conns = append(conns, c)
			}
			time.Sleep(100 * time.Millisecond) // let the listener hand the connections to handlers
			done := make(chan struct{})
			t0 := time.Now()
			go func() { s.Close(); close(done) }()
			select {
			case <-done:
				r.Returned = true
			case <-time.After(bound):
				buf := make([]byte, 1<<20)
				n := runtime.Stack(buf, true)
				for _, g := range strings.Split(string(buf[:n]), "\n\n") {
					if strings.Contains(g, "managedHandleSyncConn") && (strings.Contains(g, "io.ReadFull") || strings.Contains(g, "io.ReadAtLeast")) {
						r.Witness = "a sync handler is blocked in its read while Close waits: " + firstLine(g)
					}
				}
			}
			r.Seconds = time.Since(t0).Seconds()
			for _, c := range conns {
				c.Close()
			}
		}(i, scn)
	}
	wg.Wait()
	b, _ := json.Marshal(results)
	fmt.Println("SHUTDOWN-RESULTS " + string(b))
}

func init() {
	raceBodies["c12shutdown"] = c12ShutdownBody
	pool.Register("c12", func(data json.RawMessage) (interface{}, error) {
		var j c12Job
		if err := json.Unmarshal(data, &j); err != nil {
			return nil, err
		}
		return c12Run(j), nil
	})
	checks["C12"] = func(tier string) int {
		run := newRun("C12", tier, "exploration")
		// the shutdown scenarios run meanwhile in a real-time child process
		type shut struct {
			out []byte
			err error
		}
		shCh := make(chan shut, 1)
		go func() {
			cmd := exec.Command(os.Args[0], "racebody", "c12shutdown")
			cmd.Env = append(os.Environ(), "VERIF_REALTIME=1")
			o, err := cmd.CombinedOutput()
			shCh <- shut{o, err}
		}()
		var jobs []interface{}
		ds := []int{0, 3599, 3600, 3601, 4031, 4032, 4033, 8064, 12000}
		if tier == "thorough" {
			ds = []int{0, 8064, 12000}
			for d := 3590; d <= 4040; d++ {
				ds = append(ds, d)
			}
		}
		for i, d := range ds {
			jobs = append(jobs, c12Job{D: d, PeerDown: true, Datagrams: i < 3 || tier == "thorough"})
		}
		jobs = append(jobs, c12Job{D: 0, PeerDown: false, Datagrams: false})
		for _, d := range []int{0, 3600, 4032} {
			jobs = append(jobs, c12Job{D: d, PeerDown: true, Datagrams: true, Rotations: 1})
		}
		jobs = append(jobs, c12Job{D: 100, PeerDown: true, Datagrams: true, Rotations: 2})
		jobs = append(jobs, c12Job{Volume: true})
		sh := <-shCh
		line := ""
		for _, l := range strings.Split(string(sh.out), "\n") {
			if strings.HasPrefix(l, "SHUTDOWN-RESULTS ") {
				line = strings.TrimPrefix(l, "SHUTDOWN-RESULTS ")
			}
		}
		var srs []shutdownResult
		if line == "" || json.Unmarshal([]byte(line), &srs) != nil {
			fmt.Println("HARNESS ERROR: shutdown scenarios produced no result:", sh.err, tailStr(string(sh.out), 1500))
			run.Count("harness_errors", 1)
		}
		for _, r := range srs {
			switch {
			case r.Err != "":
				fmt.Println("HARNESS ERROR: shutdown scenario", r.Scenario, r.Err)
				run.Count("harness_errors", 1)
			case !r.Returned && r.Witness != "":
				run.Violation("shutdown-blocked-by-open-sync-connection", r)
			case !r.Returned:
				run.NotExhaustive("Close() did not return in scenario '" + r.Scenario + "' but no blocked handler was found (inconclusive)")
			}
		}
		run.Coverage["shutdown_scenarios"] = srs
		// untrusted requests arriving while a trusted operation removes what their handler has just looked up
		{
			defs := c12Scenarios()
			sp := pool.New(0)
			execs, ok := runScenarios(run, defs, -1, sp)
			run.Coverage["interleaving_scenarios"] = len(defs)
			run.Coverage["interleaving_schedules"] = execs
			if !ok {
				run.NotExhaustive("an interleaving scenario could not be explored (harness error)")
			}
		}
		run.Assumption("/api/v1/geo-stats is exercised only up to its parameter validation (the rest needs NASA/WattTime over the network); net/http's own shutdown bound is trusted; production-only WattTime paths cannot run offline")
		return runJobCheck(run, "c12", jobs, "per clock configuration (now-offset in {0, 3599..3601, 4031..4033, 8064, 12000}; thorough: every value 3590..4040) with an authorized peer whose port is closed: every handler x {GET, POST, PUT} x query/body variants (absent, empty, malformed, boundary, valid, truncated JSON, wrong types, deeply nested), TCP sync requests of 0..4 bytes (+ garbage) for known/banned/unknown ids, the C01 datagram alphabet, one impact round and one rotation; one volume run (1722 accepted reports and 1060 authorizations, more than the bounded in-memory recent lists hold); after each request both mutexes must be free and GET /equipment must answer; plus Close() with 0/1/3 idle or half-sent TCP sync connections on the real sockets (violation only with a goroutine dump showing the handler blocked in its read after 4x serverShutdownTime); distinct = (handler, status) classes x configuration")
	}
}

// c12Scenarios: every kind of untrusted request against the trusted operation (ban, rotation) that deletes or
// moves the state its handler works on; all interleavings at lock acquisitions, crash/wedge oracle only.
func c12Scenarios() []srvScenarioDef {
	std := []string{"reg:G1:temp", "auth:1:kA:1000:G1", "auth:2:kB:1000:G1", "now:100", "rep:1:kA:99:400"}
	late := []string{"reg:G1:temp", "auth:1:kA:1000:G1", "auth:2:kB:1000:G1", "now:2100", "rep:1:kA:2099:400"}
	ban := []string{"auth:1:kX:1000:G1"}
	mk := func(name string, init []string, threads ...[]string) srvScenarioDef {
		return srvScenarioDef{Name: "X " + name, Init: init, Threads: threads, CrashOnly: true}
	}
	return []srvScenarioDef{
		mk("report || ban of its device", std, []string{"rep:1:kA:100:500"}, ban),
		mk("two reports for one slot || ban of their device", std, []string{"rep:1:kA:100:500", "rep:1:kA:100:600"}, ban),
		mk("sync request || ban of its device", std, []string{"sync:1"}, ban),
		mk("recent-reports request || ban of its device", std, []string{"recent:kA"}, ban),
		mk("live statistics || ban", std, []string{"get:0"}, ban),
		mk("report in the second week || rotation", late, []string{"rep:1:kA:2100:500"}, []string{"rot"}),
		mk("sync request || rotation", late, []string{"sync:1"}, []string{"rot"}),
		mk("statistics of both weeks || rotation", late, []string{"get:0", "get:2016"}, []string{"rot"}),
		mk("recent-reports request || rotation", late, []string{"recent:kA"}, []string{"rot"}),
		mk("report || ban || rotation", late, []string{"rep:1:kA:2100:500"}, ban, []string{"rot"}),
	}
}
