package main

// C14 - archive download is a consistent, public-only snapshot.
// E1 with file-system operations as scheduling points: the archive handler
// against write bursts; every zip produced is inspected. Plus the rate limit
// in front of the handler under virtual time.

import (
	"archive/zip"
	"bytes"
	"encoding/binary"
	"fmt"
	"io"
	"os"
	"path/filepath"
	"time"

	"github.com/glowlabs-org/gca-backend/glow"

	"verifh/ev"
	"verifh/pool"
	"verifh/shim/vtime"
)

func c14Scenarios() []srvScenarioDef {
	reg := []string{"reg:G1:temp", "auth:1:kA:1000:G1", "rep:1:kA:100:500"}
	return []srvScenarioDef{
		{Name: "C14a archive || new device + its first report", Init: stdInit, Threads: [][]string{{"archive"}, {"auth:3:kC:1000:G1", "rep:3:kC:100:500"}}, FSPoints: true, PageTear: true, StateOnly: true},
		{Name: "C14b archive || registration + first device + first report", Init: []string{"now:100"}, Threads: [][]string{{"archive"}, reg}, FSPoints: true, PageTear: true, StateOnly: true},
		{Name: "C14c archive || rotation", Init: append(append([]string{}, stdInit...), "rep:1:kA:100:500"), Threads: [][]string{{"archive"}, {"rot"}}, FSPoints: true, PageTear: true, StateOnly: true},
		{Name: "C14e archive || the same registration submitted again", Init: append(append([]string{}, stdInit...), "rep:1:kA:100:500"), Threads: [][]string{{"archive"}, {"reg:G1:temp"}}, FSPoints: true, PageTear: true, StateOnly: true},
		{Name: "C14f archive || report burst of two devices", Init: stdInit, Threads: [][]string{{"archive"}, {"rep:1:kA:100:500", "rep:2:kB:100:700", "rep:1:kA:101:500"}}, FSPoints: true, PageTear: true, StateOnly: true},
		{Name: "C14g five concurrent archive requests against the rate limit", Init: append(append([]string{}, stdInit...), "rep:1:kA:100:500"), Threads: [][]string{{"archive"}, {"archive"}, {"archive"}, {"archive"}, {"archive"}}},
		{Name: "C14d archive || conflicting authorization of a device with reports", Init: append(append([]string{}, stdInit...), "rep:1:kA:100:500"), Threads: [][]string{{"archive"}, {"auth:1:kX:1000:G1"}}, FSPoints: true, PageTear: true, StateOnly: true},
	}
}

func readZip(b []byte) (map[string][]byte, error) {
	zr, err := zip.NewReader(bytes.NewReader(b), int64(len(b)))
	if err != nil {
		return nil, err
	}
	out := map[string][]byte{}
	for _, f := range zr.File {
		rc, err := f.Open()
		if err != nil {
			return nil, err
		}
		data, err := io.ReadAll(rc)
		rc.Close()
		if err != nil {
			return nil, err
		}
		out[f.Name] = data
	}
	return out, nil
}

// checkArchiveZip applies the oracle of C14 to one archive against the final files.
func checkArchiveZip(w *opsWorld, zipBytes []byte) *vio {
	files, err := readZip(zipBytes)
	if err != nil {
		return &vio{"archive-unreadable", err.Error()}
	}
	final := func(name string) []byte {
		b, _ := os.ReadFile(filepath.Join(w.Dir, name))
		return b
	}
	recLen := map[string]int{"equipment-reports.dat": 80, "equipment-authorizations.dat": 148, "gcaPubKey.dat": 32, "gcaTempPubKey.dat": 32}
	for _, name := range []string{"allDeviceStats.dat", "equipment-reports.dat", "equipment-authorizations.dat", "gcaPubKey.dat", "gcaTempPubKey.dat"} {
		got, ok := files[name]
		if !ok {
			if name == "gcaPubKey.dat" && len(final(name)) == 0 {
				continue
			}
			return &vio{"archive-misses-file/" + name, nil}
		}
		fin := final(name)
		if !bytes.HasPrefix(fin, got) {
			return &vio{"archived-file-not-a-prefix/" + name, fmt.Sprintf("archived %d bytes, final file %d bytes", len(got), len(fin))}
		}
		if n, fixed := recLen[name]; fixed && len(got)%n != 0 {
			return &vio{"archived-file-not-record-aligned/" + name, fmt.Sprintf("%d bytes, records are %d bytes", len(got), n)}
		}
	}
	weeks, err := refParseWeeks(files["allDeviceStats.dat"])
	if err != nil {
		return &vio{"archived-file-not-record-aligned/allDeviceStats.dat", err.Error()}
	}
	pub := files["server.pubkey"]
	if len(pub) != 32 || !bytes.Equal(pub, w.Srv.Pub[:]) {
		return &vio{"server-pubkey-entry-wrong", fmt.Sprintf("%d bytes", len(pub))}
	}
	for name, data := range files {
		if bytes.Contains(data, w.Srv.Priv[:]) || bytes.Contains(data, w.Srv.Priv[:16]) {
			return &vio{"private-key-in-archive/" + name, nil}
		}
	}
	if _, leaked := files["server.keys"]; leaked {
		return &vio{"private-key-in-archive/server.keys", nil}
	}
	var srvKey glow.PublicKey
	copy(srvKey[:], pub)
	for i, wk := range weeks {
		if !refVerify(srvKey, refWeekSigningBytes(wk), wk.Sig) {
			return &vio{"archived-week-does-not-verify", fmt.Sprintf("week %d under the archived server key", i)}
		}
	}
	// authorizations verify under the archived GCA key
	auths := files["equipment-authorizations.dat"]
	var gca glow.PublicKey
	copy(gca[:], files["gcaPubKey.dat"])
	type au struct {
		id  uint32
		key glow.PublicKey
	}
	var as []au
	for i := 0; i+148 <= len(auths); i += 148 {
		ea, err := glow.DeserializeEquipmentAuthorization(auths[i : i+148])
		if err != nil {
			return &vio{"archived-authorization-malformed", err.Error()}
		}
		if len(files["gcaPubKey.dat"]) != 32 || !refVerify(gca, refAuthSigningBytes(ea), ea.Signature) {
			return &vio{"archived-authorization-without-its-gca-key", fmt.Sprintf("authorization %d does not verify under the archived gcaPubKey.dat (%d bytes)", i/148, len(files["gcaPubKey.dat"]))}
		}
		as = append(as, au{ea.ShortID, ea.PublicKey})
	}
	reps := files["equipment-reports.dat"]
	for i := 0; i+80 <= len(reps); i += 80 {
		r := reps[i : i+80]
		id := binary.LittleEndian.Uint32(r[0:])
		ts := binary.LittleEndian.Uint32(r[4:])
		pw := binary.LittleEndian.Uint64(r[8:])
		var sig glow.Signature
		copy(sig[:], r[16:])
		ok := false
		for _, a := range as {
			if a.id == id && refVerify(a.key, refReportSigningBytes(id, ts, pw), sig) {
				ok = true
			}
		}
		if !ok {
			return &vio{"archived-report-without-its-authorization", fmt.Sprintf("report %d (device %d) has no verifying authorization in the same archive", i/80, id)}
		}
	}
	return nil
}

func init() {
	for _, d := range c14Scenarios() {
		scenarioExtra[d.Name] = func(d *srvScenarioDef, w *opsWorld) *vio {
			if w.lastArchive == nil {
				return nil // no archive was produced (e.g. the server was not registered yet when the handler ran)
			}
			return checkArchiveZip(w, w.lastArchive)
		}
	}
	checks["C14"] = func(tier string) int {
		run := newRun("C14", tier, "model_checking")
		bound := 2
		if tier == "thorough" {
			bound = 3
		}
		p := pool.New(0)
		defs := c14Scenarios()
		execs, ok := runScenarios(run, defs, bound, p)
		// histories: an archive taken at rest after every history of trusted and forged submissions
		harg := opsArg{Name: "c14h", Init: []string{"reg:G1:temp", "now:100"}, ArchiveCheck: true}
		hops := edgeIDs([]string{
			"auth:1:kA:1000:G1", "auth:1:kA:2000:G1", "auth:1:kA:1000:G1:stale", "auth:1:kA:1000:G1:flip", "auth:1:kA:2000:G2", "auth:1:kA:1000:temp",
			"auth:2:kB:1000:G1", "auth:2:kA:1000:G1:stale",
			"rep:1:kA:now:500", "rep:1:kA:now:600", "rep:1:kB:now:500", "rep:2:kB:now:700", "rep:2:kA:now:700",
			"rot", "restart", "reg:G2:temp", "reg:G1:temp",
		})
		hdepth := 4
		if tier == "thorough" {
			hdepth = 6
		}
		hst := bfsPool(run, p, "ops", harg, hdepth, 0, authFilter(harg.Init, hops))
		run.Coverage["history_states"] = hst.States
		run.Coverage["history_transitions"] = hst.Transitions
		run.Coverage["history_depth"] = hst.Depth
		run.Coverage["history_alphabet"] = hops
		if hst.HarnessErrors > 0 {
			ok = false
		}
		execs += hst.Transitions
		// rate limit in front of the handler, virtual time
		rl := c14RateLimit(run)
		finishScenarios(run, execs, len(defs), bound, "; file-system calls (open, read, write, create) are scheduling points, so the write burst lands in every gap between two file reads of the archive handler and inside the truncate/write gap of a key file; every zip produced is checked: each public file a record-aligned prefix of the final file, every report has a verifying authorization in the same archive, every authorization verifies under the archived GCA key, every week under the archived server key, server.pubkey is exactly the public half, the private key occurs nowhere; five concurrent requests are answered like five sequential ones (no more 200s than the limit, whatever the interleaving of the limiter's and the server's mutex); plus BFS over histories of valid, conflicting, forged (altered after signing, flipped bit, foreign GCA, temp key) authorizations, reports under right and wrong keys, rotations, restarts and repeated registrations, with an archive taken at rest in every distinct state (same oracle, and each archived file must be the complete file)")
		run.Coverage["rate_limit_requests"] = rl
		rc := run.Finish()
		if !ok && rc == 0 {
			return 3
		}
		return rc
	}
}

// c14RateLimit drives request bursts at the window edges through the handler.
func c14RateLimit(run *ev.Run) int {
	w, err := newOpsWorld("c14rl")
	if err != nil {
		run.Count("harness_errors", 1)
		return 0
	}
	defer w.finish(&bfsResult{})
	w.apply("reg:G1:temp")
	limit, rate := sc.ApiArchiveLimit, sc.ApiArchiveRate
	var admitted []time.Duration
	n := 0
	req := func() int {
		code, _ := w.httpDo("GET", "/api/v1/archive", nil)
		n++
		if code == 200 {
			admitted = append(admitted, vtime.Offset())
		}
		return code
	}
	// every sequence up to the depth below of {request, advance half a window, advance half a window + 1 ns,
	// advance a window - 1 ns}; between sequences the limiter is given two idle windows to forget everything
	ops := []string{"req", "+half", "+half+1", "+rate-1"}
	depth := 7
	var rec func(hist []string)
	var worst string
	rec = func(hist []string) {
		if len(hist) == depth {
			vtime.Advance(2*rate + 1)
			var calls []rlCall
			for _, op := range hist {
				switch op {
				case "req":
					at := vtime.Offset()
					code := req()
					if code != 200 && code != 429 {
						run.Violation("archive-status", fmt.Sprint(code))
					}
					calls = append(calls, rlCall{at, at, code == 200})
				case "+half":
					vtime.Advance(rate / 2)
				case "+half+1":
					vtime.Advance(rate/2 + 1)
				case "+rate-1":
					vtime.Advance(rate - 1)
				}
			}
			if sig, what := rlJudge(limit, rate, calls); sig != "" && worst == "" {
				worst = sig
				run.Violation("archive-rate-limit/"+sig, map[string]interface{}{"what": what, "sequence": hist, "calls": calls})
			}
			return
		}
		for _, op := range ops {
			if op != "req" && len(hist) > 0 && hist[len(hist)-1] != "req" && len(hist) > 2 && hist[len(hist)-2] != "req" {
				continue // three advances in a row only move the clock further: covered by shorter gaps
			}
			rec(append(hist, op))
		}
	}
	rec(nil)
	_ = admitted
	return n
}
