// vcheck is the model-checking driver: one sub-check per property.
package main

import (
	"fmt"
	"os"
	"sort"

	"verifh/pool"
)

type checkFn func(tier string) int

var checks = map[string]checkFn{}

func main() {
	if len(os.Args) < 2 {
		usage()
	}
	switch os.Args[1] {
	case "worker":
		pool.WorkerMain()
	case "check":
		if len(os.Args) < 4 {
			usage()
		}
		f := checks[os.Args[2]]
		if f == nil {
			fmt.Fprintln(os.Stderr, "unknown property", os.Args[2])
			os.Exit(2)
		}
		os.Exit(f(os.Args[3]))
	case "replay":
		if len(os.Args) < 3 {
			usage()
		}
		os.Exit(replay(os.Args[2]))
	case "racebody":
		os.Exit(runRaceBody(os.Args[2]))
	case "list":
		var ks []string
		for k := range checks {
			ks = append(ks, k)
		}
		sort.Strings(ks)
		fmt.Println(ks)
	default:
		usage()
	}
}

func usage() {
	fmt.Fprintln(os.Stderr, "usage: vcheck check <PROP> <tier> | replay <path> | worker | list")
	os.Exit(2)
}
