package main

// C05 - a crash at any point leaves a server that starts and keeps the
// durable prefix. E3: run a history once on the real server with the file
// system observer on; after every mutating file-system step copy the base
// directory (crash image); recover every distinct image with the real
// constructor and compare with the model of the durable prefix.

import (
	"crypto/sha256"
	"encoding/json"
	"fmt"
	"os"
	"path/filepath"
	"sort"
	"strings"
	"sync"

	"github.com/glowlabs-org/gca-backend/glow"
	"github.com/glowlabs-org/gca-backend/server"

	"verifh/pool"
	"verifh/shim/vos"
)

type crashImage struct {
	Step   int
	Op     int // index of the operation in flight (-1 = first start)
	StepOp string
	Path   string
	Files  map[string][]byte
}

func captureDir(dir string) map[string][]byte {
	out := map[string][]byte{}
	filepath.Walk(dir, func(p string, fi os.FileInfo, err error) error {
		if err != nil || fi.IsDir() {
			return nil
		}
		rel, _ := filepath.Rel(dir, p)
		if rel == "server.log" {
			out[rel] = nil // exists; content irrelevant to recovery
			return nil
		}
		b, _ := os.ReadFile(p)
		out[rel] = b
		return nil
	})
	return out
}

func imageHash(files map[string][]byte) string {
	var names []string
	for n := range files {
		names = append(names, n)
	}
	sort.Strings(names)
	h := sha256.New()
	for _, n := range names {
		fmt.Fprintf(h, "%s:%d:", n, len(files[n]))
		h.Write(files[n])
	}
	return fmt.Sprintf("%x", h.Sum(nil)[:12])
}

func materialize(files map[string][]byte) string {
	dir := freshDir("crash")
	for n, b := range files {
		p := filepath.Join(dir, n)
		os.MkdirAll(filepath.Dir(p), 0755)
		os.WriteFile(p, b, 0644)
	}
	return dir
}

// persistKey is the model's value key restricted to persisted facts.
func (m *srvModel) persistKey() string {
	saved := m.Impact
	m.Impact = map[uint32]map[uint32]float64{}
	k := m.valueKey()
	m.Impact = saved
	return k
}

func snapPersistKey(s server.VerifSnapshot) (string, error) {
	s.Impact = map[uint32][]server.VerifImpact{}
	return snapValueKey(s)
}

type c05Job struct {
	Hist []string `json:"hist"`
}

func c05Run(j c05Job) *jobReport {
	rep := &jobReport{Reasons: map[string]int{}, Extra: map[string]int{}}
	resetGlobals()
	dir := freshDir("srv")
	temp := key("c05/temp")
	os.MkdirAll(filepath.Join(dir, "watttime_data"), 0755)
	must(os.WriteFile(filepath.Join(dir, "gcaTempPubKey.dat"), temp.Pub[:], 0644))
	must(os.WriteFile(filepath.Join(dir, "watttime_data", "username"), []byte("hi"), 0644))
	must(os.WriteFile(filepath.Join(dir, "watttime_data", "password"), []byte("ih"), 0644))
	glow.SetCurrentTimeslot(100)

	var mu sync.Mutex
	var images []crashImage
	seen := map[string]bool{}
	curOp := -1
	vos.ResetSteps()
	// an append that crosses a page boundary reaches the disk page by page: a process killed inside the
	// system call leaves the file ending at the boundary (step kind "write-partial")
	vos.SetPageTear(true, nil)
	defer vos.SetPageTear(false, nil)
	vos.SetObserver(func(step int, op, path string) {
		if !strings.HasPrefix(path, dir) {
			return
		}
		files := captureDir(dir)
		mu.Lock()
		defer mu.Unlock()
		// identical bytes mean something different later in the history (an empty report log is fine before
		// the first report and a loss after it): deduplicate per operation in flight only
		h := fmt.Sprintf("%s@%d", imageHash(files), curOp)
		if os.Getenv("VERIF_C05_TRACE") != "" {
			fmt.Fprintf(os.Stderr, "step %d %s %s op=%d sizes=%v\n", step, op, filepath.Base(path), curOp, fileSizes(files))
		}
		rep.Extra["fs_steps"]++
		if seen[h] {
			return
		}
		seen[h] = true
		images = append(images, crashImage{Step: step, Op: curOp, StepOp: op, Path: filepath.Base(path), Files: files})
	})
	// first start (no pre-written server keys: their creation is part of the history)
	sw := &srvWorld{Dir: dir, Temp: temp}
	var startErr error
	if p := safely(func() { startErr = sw.start() }); p != "" || startErr != nil {
		vos.SetObserver(nil)
		rep.fail("first-start-fails", fmt.Sprint(p, startErr))
		return rep
	}
	sw.Srv.Pub = sw.S.PublicKey()
	w := &opsWorld{srvWorld: sw, M: newSrvModel(temp.Pub), Now: 100, firstServed: map[uint32]string{}, Served: map[uint32][]byte{}}
	// model keys at operation boundaries: keys[i] = before op i, keys[len] = after the last
	keys := []string{w.M.persistKey()}
	for i, op := range j.Hist {
		mu.Lock()
		curOp = i
		mu.Unlock()
		r := w.apply(op)
		if r.Sig != "" && !r.Skipped {
			vos.SetObserver(nil)
			if strings.HasPrefix(r.Sig, "panic") || r.Sig == "restart-fails" {
				rep.fail(r.Sig+"/"+opClassOf(op), map[string]interface{}{"history": j.Hist, "step": i, "observed": r.Obs})
			}
			// a plain refusal (e.g. report before authorization) is not this property's business
			if w.Poisoned {
				w.Abandon()
				return rep
			}
			vos.SetObserver(observerOf(dir, &mu, rep, seen, &images, &curOp))
		}
		keys = append(keys, w.M.persistKey())
	}
	mu.Lock()
	curOp = len(j.Hist)
	mu.Unlock()
	vos.SetObserver(nil)
	gcaWanted := w.M.Registered
	_ = gcaWanted
	res := &bfsResult{}
	w.finish(res)
	for _, v := range res.Violations {
		rep.fail(v.Sig, v.Detail)
	}
	// ---- recover every distinct crash image ----
	for _, img := range images {
		rep.Evals++
		allowed := map[string]bool{}
		switch {
		case img.Op < 0:
			allowed[keys[0]] = true
		case img.Op >= len(j.Hist):
			allowed[keys[len(keys)-1]] = true
		default:
			allowed[keys[img.Op]] = true
			allowed[keys[img.Op+1]] = true
		}
		where := "first-start"
		if img.Op >= 0 && img.Op < len(j.Hist) {
			where = opClassOf(j.Hist[img.Op])
		}
		sig, what := recoverImage(img, temp, allowed)
		rep.Reasons[where]++
		if sig != "" {
			rep.fail(sig+"/during-"+where+"/"+img.StepOp+":"+img.Path, map[string]interface{}{"history": j.Hist, "crash_after_step": img.Step, "step": img.StepOp + " " + img.Path, "operation_in_flight": where, "what": what, "files": fileSizes(img.Files)})
		}
	}
	// the final directory once more, recovered LATE: the machine stays down until the clock is more than a window
	// past the offset; start-up then loads the logs first and catches up with rotations afterwards. Everything that
	// was durable must be in the weeks it archives.
	if len(images) > 0 && w.M.Registered {
		last := images[len(images)-1]
		if last.Op >= len(j.Hist)-1 {
			dir := materialize(last.Files)
			late := w.M.Offset + 4200
			glow.SetCurrentTimeslot(late)
			sw2 := &srvWorld{Dir: dir, Temp: temp}
			var lerr error
			if p := safely(func() { lerr = sw2.start() }); p != "" || lerr != nil {
				rep.fail("late-recovery-fails", map[string]interface{}{"history": j.Hist, "err": fmt.Sprint(firstLine(p), lerr)})
				sw2.Abandon()
			} else {
				snap := sw2.S.VerifSnapshot()
				w.M.restartVolatile()
				for i := 0; i < 4 && w.M.Offset < snap.ReportsOffset; i++ {
					w.M.rotate()
				}
				got, kerr := snapPersistKey(snap)
				if want := w.M.persistKey(); kerr != nil || got != want {
					rep.fail("late-recovery-loses-durable-data", map[string]interface{}{"history": j.Hist, "restart_clock": late, "diff": firstDiff(got, want)})
				}
				if p := safely(func() { sw2.Close() }); p != "" {
					sw2.Abandon()
				} else {
					sw2.Cleanup()
				}
			}
			glow.SetCurrentTimeslot(100)
			rep.Evals++
		}
	}
	if len(rep.Samples) < 2 {
		rep.Samples = append(rep.Samples, fmt.Sprintf("history %v: %d distinct crash images", j.Hist, len(images)))
	}
	return rep
}

func observerOf(dir string, mu *sync.Mutex, rep *jobReport, seen map[string]bool, images *[]crashImage, curOp *int) vos.Observer {
	return func(step int, op, path string) {
		if !strings.HasPrefix(path, dir) {
			return
		}
		files := captureDir(dir)
		mu.Lock()
		defer mu.Unlock()
		h := fmt.Sprintf("%s@%d", imageHash(files), *curOp)
		rep.Extra["fs_steps"]++
		if seen[h] {
			return
		}
		seen[h] = true
		*images = append(*images, crashImage{Step: step, Op: *curOp, StepOp: op, Path: filepath.Base(path), Files: files})
	}
}

func fileSizes(files map[string][]byte) map[string]int {
	out := map[string]int{}
	for n, b := range files {
		out[n] = len(b)
	}
	return out
}

// recoverImage starts the real server on a crash image and applies the
// oracle of C05.
func recoverImage(img crashImage, temp keyPair, allowed map[string]bool) (sig, what string) {
	dir := materialize(img.Files)
	glow.SetCurrentTimeslot(100)
	sw := &srvWorld{Dir: dir, Temp: temp}
	var err error
	if p := safely(func() { err = sw.start() }); p != "" {
		sw.Abandon()
		return "recovery-panics", firstLine(p)
	}
	if err != nil {
		return "recovery-fails", err.Error()
	}
	abandon := false
	defer func() {
		if abandon {
			sw.Abandon()
			return
		}
		if p := safely(func() { sw.Close() }); p != "" {
			sig, what = "recovered-close-panics", firstLine(p)
			sw.Abandon()
			return
		}
		sw.Cleanup()
	}()
	snap := sw.S.VerifSnapshot()
	got, kerr := snapPersistKey(snap)
	if kerr != nil {
		return "recovered-state-inconsistent", kerr.Error()
	}
	if !allowed[got] {
		var as []string
		for a := range allowed {
			as = append(as, a)
		}
		return "recovered-state-not-a-durable-prefix", firstDiff(got, as[0])
	}
	// the server's own key pair works
	pub := sw.S.PublicKey()
	code, st, body := (&srvWorld{S: sw.S}).stats("0")
	_ = body
	if code == 200 {
		rec := weekRecord{Offset: st.TimeslotOffset, Sig: st.Signature}
		for _, d := range st.Devices {
			var rd weekDevice
			rd.Key = d.PublicKey
			for i := 0; i < mWeek; i++ {
				rd.Power[i] = uint64(d.PowerOutputs[i])
				rd.Rate[i] = d.ImpactRates[i]
			}
			rec.Devices = append(rec.Devices, rd)
		}
		if !refVerify(pub, refWeekSigningBytes(rec), rec.Sig) {
			return "recovered-server-key-unusable", "statistics signed by the recovered server do not verify under its public key"
		}
	}
	// an unregistered recovered server can still be registered by its GCA
	if !snap.GCAAvailable {
		g := key("G1")
		if c := sw.register(g, temp.Priv); c != 200 {
			return "recovered-server-cannot-be-registered", fmt.Sprintf("valid registration answered %d", c)
		}
	} else {
		// a registered one honours its GCA
		ea := authFor(42, key("kRecovered"), 1000)
		signer := key("G1")
		if c := sw.authorize(ea, signer.Priv); c != 200 {
			return "recovered-server-ignores-its-gca", fmt.Sprintf("authorization signed by the registered GCA answered %d", c)
		}
		var ids []int
		for id := range snap.Equipment {
			ids = append(ids, int(id))
		}
		sort.Ints(ids)
		if len(ids) > 0 {
			if dg := signedReportForRecovered(snap, uint32(ids[0])); dg != nil {
				sw.S.VerifInjectDatagram(dg)
			}
		}
	}
	if p := safely(func() { sw.S.VerifRotate() }); p != "" {
		abandon = true
		return "recovered-server-panics-on-rotation", firstLine(p)
	}
	// what the recovered server writes next must leave a directory that starts again (appends after a repaired
	// tail must be aligned), with everything it held after recovery
	before, _ := snapPersistKey(sw.S.VerifSnapshot())
	var rerr error
	if p := safely(func() { rerr = sw.Restart() }); p != "" || rerr != nil {
		abandon = true
		return "recovered-server-does-not-restart", fmt.Sprint(firstLine(p), rerr)
	}
	if after, kerr := snapPersistKey(sw.S.VerifSnapshot()); kerr != nil || after != before {
		return "recovered-server-loses-state-on-restart", firstDiff(after, before)
	}
	return "", ""
}

func c05Histories(maxLen int) [][]string {
	alphabet := []string{"reg:G1:temp", "auth:1:kA:1000:G1", "auth:1:kX:1000:G1", "rep:1:kA:now:500", "rep:1:kA:now:600", "rot", "restart"}
	var out [][]string
	var rec func(cur []string)
	rec = func(cur []string) {
		if len(cur) > 0 {
			out = append(out, append([]string(nil), cur...))
		}
		if len(cur) == maxLen {
			return
		}
		for _, op := range alphabet {
			// keep histories meaningful: everything but a registration needs a registered server
			registered := false
			for _, c := range cur {
				if c == "reg:G1:temp" {
					registered = true
				}
			}
			if !registered && op != "reg:G1:temp" && op != "restart" && op != "rot" {
				continue
			}
			rec(append(cur, op))
		}
	}
	rec(nil)
	return out
}

func init() {
	pool.Register("c05", func(data json.RawMessage) (interface{}, error) {
		var j c05Job
		if err := json.Unmarshal(data, &j); err != nil {
			return nil, err
		}
		return c05Run(j), nil
	})
	checks["C05"] = func(tier string) int {
		run := newRun("C05", tier, "fault_enumeration")
		maxLen := 4
		if tier == "thorough" {
			maxLen = 6
		}
		var jobs []interface{}
		jobs = append(jobs, c05Job{nil})
		for _, h := range c05Histories(maxLen) {
			jobs = append(jobs, c05Job{edgeIDs(h)}) // the device has short id 0, the zero value of every id-typed variable
		}
		// fleets: the weekly record grows by 32 KiB per device, so rotations with 3 and 5 devices write
		// records of 95 and 158 KiB (any chunked writing shows up as extra crash points)
		fleet := []string{"reg:G1:temp", "auth:1:kA:1000:G1", "auth:2:kB:1000:G1", "auth:3:kC:1000:G1"}
		jobs = append(jobs, c05Job{append(append([]string{}, fleet...), "rep:1:kA:now:500", "rot")})
		jobs = append(jobs, c05Job{append(append([]string{}, fleet...), "auth:4:kD:1000:G1", "auth:5:kE:1000:G1", "rep:3:kC:now:500", "rot", "rot", "restart")})
		jobs = append(jobs, c05Job{append(append([]string{}, fleet...), "rot", "auth:2:kX:1000:G1", "rep:3:kC:now:500", "rot")})
		jobs = append(jobs, c05Job{edgeIDs(append(append([]string{}, fleet...), "rep:3:kC:now:500", "rep:1:kA:now:500", "auth:3:kX:1000:G1", "auth:1:kX:1000:G1", "restart", "rot"))})
		// long logs: the 52nd report (80-byte records) and the 28th authorization (148-byte records) are the first
		// records of their files that straddle a page boundary
		{
			h := []string{"reg:G1:temp", "auth:1:kA:1000:G1"}
			for i := 51; i >= 1; i-- {
				h = append(h, fmt.Sprintf("rep:1:kA:now-%d:500", i))
			}
			jobs = append(jobs, c05Job{append(h, "rep:1:kA:now:500", "restart")})
			h = []string{"reg:G1:temp"}
			for i := 0; i < 27; i++ {
				h = append(h, fmt.Sprintf("auth:%d:kL%d:1000:G1", 10+i, i))
			}
			jobs = append(jobs, c05Job{append(h, "auth:1:kA:1000:G1", "rep:1:kA:now:500", "restart")})
		}
		run.Coverage["histories"] = len(jobs)
		run.Assumption("process-crash model: completed system calls persist, memory is lost; ioutil.WriteFile is performed as open-truncate, write, close so that 'present but empty' is a step boundary; a write that crosses a 4096-byte boundary of the file persists page by page (the kernel honours a fatal signal between two pages: measured on this kernel, a process killed inside one large write leaves a file ending on a page multiple), tears inside a page and loss of completed writes (power failure) are out of scope")
		return runJobCheck(run, "c05", jobs, "every history of length <= N over {register, authorize, conflicting authorize, first report, second report (ban), rotate, restart} after a first start, fleets of 3-5 devices, and logs long enough for a report and an authorization record to straddle a page boundary; after every mutating file-system step of the run (each page of a write that crosses a page boundary is a step) the directory is copied; every distinct crash image is recovered by the real constructor and compared with the model of the durable prefix (completed operations in, the in-flight operation in or out, nothing partial); the final directory is also recovered late (clock 4200 slots past the offset: logs loaded first, catch-up rotations afterwards) and must equal the model after those rotations; evaluations = crash images recovered; distinct = (history, operation in flight) classes")
	}
}

// signedReportForRecovered builds a valid report of a device the recovered server holds (if the harness knows its key).
func signedReportForRecovered(snap server.VerifSnapshot, id uint32) []byte {
	ea := snap.Equipment[id]
	for _, n := range []string{"kA", "kB", "kC", "kD", "kE", "kRecovered"} {
		if key(n).Pub == ea.PublicKey {
			return signedReport(id, 101, 77, key(n).Priv)
		}
	}
	return nil
}
