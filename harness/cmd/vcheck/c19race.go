package main

import (
	"sync"
	"time"

	"github.com/glowlabs-org/gca-backend/glow"
)

func init() {
	raceBodies["c19"] = func() {
		r := glow.NewRateLimiter(3, 200*time.Microsecond)
		var wg sync.WaitGroup
		for g := 0; g < 16; g++ {
			wg.Add(1)
			go func() {
				defer wg.Done()
				for i := 0; i < 300; i++ {
					r.Allow()
				}
			}()
		}
		wg.Wait()
	}
}
