package main

// Concurrent scenarios on the real server for E1 (C07 concurrent part, C13,
// C14): thread bodies are short lists of operations of the ops language,
// executed on the real server only. Oracle per execution: no panic, no
// deadlock, all mutexes free, the server's own invariant check passes, and
// (observations, final state) is one of the outcomes of the sequential
// orders of the same operations, each run on a fresh instance.

import (
	"encoding/json"
	"fmt"
	"os"
	"path/filepath"
	"regexp"
	"sort"
	"strconv"
	"strings"

	"github.com/glowlabs-org/gca-backend/glow"
	"github.com/glowlabs-org/gca-backend/server"

	"verifh/shim/vmrand"
	"verifh/shim/vos"
	"verifh/shim/vsync"
	"verifh/vsched"
)

type srvScenarioDef struct {
	Name     string     `json:"name"`
	Init     []string   `json:"init"`
	Threads  [][]string `json:"threads"`
	FSPoints bool       `json:"fs_points"`
	// StateOnly: compare only the final state with the sequential outcomes
	// (observations of multi-section operations may legitimately differ).
	StateOnly bool `json:"state_only"`
	// RatesLoose: the impact job is one atomic update per device, so a
	// concurrent rotation or ban may leave any subset of its per-device updates
	// visible. Outcomes are compared without impact rates; instead every rate
	// present must sit at the absolute timeslot the job ran for.
	RatesLoose bool `json:"rates_loose"`
	// CrashOnly: only panics, deadlocks, locks left held and a failing consistency check count (C12 is about
	// crashing and wedging; equality with a sequential run is C13's business).
	CrashOnly bool `json:"crash_only"`
	// PageTear: a write that crosses a page boundary becomes visible page by page (see vos.SetPageTear).
	PageTear bool `json:"page_tear"`
}

var (
	reLiveRate = regexp.MustCompile(`i\d+@(\d+)=[0-9a-f]+;`)
	reArchRate = regexp.MustCompile(`,r\d+=[0-9a-f]+`)
)

func stripRates(k string) string {
	return reArchRate.ReplaceAllString(reLiveRate.ReplaceAllString(k, ""), "")
}

// ratesMisplaced reports a rate that is not at absolute timeslot now.
func ratesMisplaced(snap server.VerifSnapshot, now uint32) string {
	for id, es := range snap.Impact {
		for _, e := range es {
			if snap.ReportsOffset+e.Index != now {
				return fmt.Sprintf("device %d has a live rate at timeslot %d, the job ran for %d", id, snap.ReportsOffset+e.Index, now)
			}
		}
	}
	for _, hb := range snap.History {
		ws, err := refParseWeeks(hb)
		if err != nil {
			return err.Error()
		}
		for _, d := range ws[0].Devices {
			for i, r := range d.Rate {
				if r != 0 && ws[0].Offset+uint32(i) != now {
					return fmt.Sprintf("archived week %d has a rate at timeslot %d, the job ran for %d", ws[0].Offset, ws[0].Offset+uint32(i), now)
				}
			}
		}
	}
	return ""
}

// realOp drives the real server only and returns what the caller observed.
func (w *opsWorld) realOp(op string) string {
	parts := strings.Split(op, ":")
	switch parts[0] {
	case "reg":
		gca := key(parts[1])
		gr := server.GCARegistration{GCAKey: gca.Pub}
		gr.Signature = glow.Sign(refRegistrationSigningBytes(gca.Pub), w.signerPriv(parts[2]))
		body, _ := json.Marshal(gr)
		code, _ := w.httpDo("POST", "/api/v1/register-gca", body)
		return fmt.Sprint(code)
	case "auth":
		id, _ := strconv.ParseUint(parts[1], 10, 32)
		capa, _ := strconv.ParseUint(parts[3], 10, 64)
		ea := authFor(uint32(id), key(parts[2]), capa)
		ea.Signature = glow.Sign(refAuthSigningBytes(ea), w.signerPriv(parts[4]))
		body, _ := json.Marshal(ea)
		code, _ := w.httpDo("POST", "/api/v1/authorize-equipment", body)
		return fmt.Sprint(code)
	case "rep":
		id, _ := strconv.ParseUint(parts[1], 10, 32)
		ts, _ := strconv.ParseUint(parts[3], 10, 32)
		w.S.VerifInjectDatagram(signedReport(uint32(id), uint32(ts), parsePower(parts[4]), key(parts[2]).Priv))
		return ""
	case "rot":
		w.S.VerifRotate()
		return ""
	case "impact":
		w.S.VerifImpactJob()
		return ""
	case "get":
		url := "/api/v1/all-device-stats?timeslot_offset=" + parts[1]
		if len(parts) > 2 && parts[2] == "neg" {
			url += "&insert_false_negatives=true"
		}
		code, body := w.httpDo("GET", url, nil)
		if code != 200 {
			return fmt.Sprint(code)
		}
		var st statsJSON
		if err := json.Unmarshal(body, &st); err != nil {
			return "malformed"
		}
		// observation: status, offset and per-device non-zero values (sorted)
		var ds []string
		for _, d := range st.Devices {
			s := fmt.Sprintf("%x", d.PublicKey[:3])
			for i, p := range d.PowerOutputs {
				if p != 0 {
					s += fmt.Sprintf(",%d=%d", i, p)
				}
			}
			ds = append(ds, s)
		}
		sort.Strings(ds)
		if len(parts) > 2 && parts[2] == "neg" {
			return "200:neg"
		}
		return fmt.Sprintf("200:%d:%s", st.TimeslotOffset, strings.Join(ds, "/"))
	case "sync":
		id, _ := strconv.ParseUint(parts[1], 10, 32)
		raw, p := w.syncRaw(idBytes(uint32(id)))
		if p != "" {
			panic(p)
		}
		rep, err := parseSyncReply(raw)
		if err != nil {
			return "malformed:" + err.Error()
		}
		if rep.Refused {
			return "refused"
		}
		n := 0
		for _, b := range rep.Bitfield {
			for ; b != 0; b &= b - 1 {
				n++
			}
		}
		return fmt.Sprintf("ok:off=%d:bits=%d:rest=%d", rep.Offset, n, len(rep.Rest))
	case "sauth":
		as := server.AuthorizedServer{PublicKey: key("server-" + parts[1]).Pub, Banned: parts[2] == "1", Location: "127.0.0.1"}
		port, _ := strconv.ParseUint(parts[3], 10, 16)
		as.HttpPort, as.TcpPort, as.UdpPort = uint16(port), uint16(port)+1, uint16(port)+2
		as.GCAAuthorization = glow.Sign(refServerSigningBytes(as), w.signerPriv(parts[4]))
		body, _ := json.Marshal(as)
		code, _ := w.httpDo("POST", "/api/v1/authorized-servers", body)
		return fmt.Sprint(code)
	case "migr":
		em := server.EquipmentMigration{Equipment: key(parts[1]).Pub, NewGCA: key(parts[2]).Pub, NewShortID: 77}
		ns := server.AuthorizedServer{PublicKey: key("server-N1").Pub, Location: "127.0.0.1", HttpPort: 1, TcpPort: 2, UdpPort: 3}
		ns.GCAAuthorization = glow.Sign(refServerSigningBytes(ns), w.signerPriv(parts[4]))
		em.NewServers = []server.AuthorizedServer{ns}
		em.Signature = glow.Sign(refMigrationSigningBytes(em), w.signerPriv(parts[3]))
		body, _ := json.Marshal(em)
		code, _ := w.httpDo("POST", "/api/v1/equipment-migrate", body)
		return fmt.Sprint(code)
	case "recent":
		k := key(parts[1]).Pub
		code, rr := w.recentReports(k)
		if code != 200 {
			return fmt.Sprint(code)
		}
		n := 0
		for _, r := range rr.Reports {
			if r.PowerOutput != 0 {
				n++
			}
		}
		return fmt.Sprintf("200:%d", n)
	case "servers":
		code, body := w.httpDo("GET", "/api/v1/authorized-servers", nil)
		var r server.AuthorizedServersResponse
		json.Unmarshal(body, &r)
		var ss []string
		for _, s := range r.AuthorizedServers {
			ss = append(ss, fmt.Sprintf("%x:%v", s.PublicKey[:3], s.Banned))
		}
		return fmt.Sprint(code, ss)
	case "equipment":
		code, eq := w.equipment()
		var ids []int
		for id := range eq {
			ids = append(ids, int(id))
		}
		sort.Ints(ids)
		return fmt.Sprint(code, ids)
	case "archive":
		code, body := w.httpDo("GET", "/api/v1/archive", nil)
		if code == 200 {
			w.lastArchive = body
		}
		return fmt.Sprint(code)
	}
	panic("realOp: unknown op " + op)
}

// finalKey is the canonical final state used by the differential oracle.
func (w *opsWorld) finalKey() string {
	snap := w.S.VerifSnapshot()
	v, err := snapValueKey(snap)
	if err != nil {
		v = "INCONSISTENT:" + err.Error()
	}
	var srv []string
	for _, s := range snap.Servers {
		srv = append(srv, fmt.Sprintf("%x:%v", s.PublicKey[:3], s.Banned))
	}
	gk, _ := os.ReadFile(filepath.Join(w.Dir, "gcaPubKey.dat"))
	return fmt.Sprintf("%s|gca=%v:%x|file=%x|servers=%v|auths=%d|reports=%d|weeks=%d", v, snap.GCAAvailable, snap.GCAPubKey[:4], gk, srv,
		w.fileSize("equipment-authorizations.dat"), w.fileSize("equipment-reports.dat"), w.fileSize("allDeviceStats.dat"))
}

var seqOutcomeCache = map[string]map[string]string{}

// opOrders enumerates all interleavings of the threads' operation lists that
// preserve each thread's program order.
func opOrders(threads [][]string) [][][2]int {
	var out [][][2]int
	pos := make([]int, len(threads))
	var cur [][2]int
	var rec func()
	rec = func() {
		done := true
		for t := range threads {
			if pos[t] < len(threads[t]) {
				done = false
				cur = append(cur, [2]int{t, pos[t]})
				pos[t]++
				rec()
				pos[t]--
				cur = cur[:len(cur)-1]
			}
		}
		if done {
			out = append(out, append([][2]int(nil), cur...))
		}
	}
	rec()
	return out
}

func (d *srvScenarioDef) prepare() (*opsWorld, error) {
	w, err := newOpsWorld(d.Name)
	if err != nil {
		return nil, err
	}
	vmrand.SetIntn(func(n int) int { return 1 })
	for _, op := range d.Init {
		if r := w.apply(op); r.Sig != "" {
			w.Abandon()
			return nil, fmt.Errorf("init op %s: %s (%s)", op, r.Sig, r.Obs)
		}
	}
	return w, nil
}

func outcomeString(d *srvScenarioDef, obs [][]string, final string) string {
	if d.RatesLoose {
		final = stripRates(final)
	}
	if d.StateOnly {
		return final
	}
	b, _ := json.Marshal(obs)
	return string(b) + "||" + final
}

// sequentialOutcomes runs every sequential order on a fresh instance.
func (d *srvScenarioDef) sequentialOutcomes() (map[string]string, error) {
	raw, _ := json.Marshal(d)
	if m, ok := seqOutcomeCache[string(raw)]; ok {
		return m, nil
	}
	m := map[string]string{}
	for _, order := range opOrders(d.Threads) {
		w, err := d.prepare()
		if err != nil {
			return nil, err
		}
		obs := make([][]string, len(d.Threads))
		var desc []string
		var pan string
		for _, st := range order {
			op := d.Threads[st[0]][st[1]]
			desc = append(desc, op)
			if p := safely(func() { obs[st[0]] = append(obs[st[0]], w.realOp(op)) }); p != "" {
				pan = p
				break
			}
		}
		if pan != "" {
			w.Abandon()
			return nil, fmt.Errorf("sequential order %v panics: %s", desc, firstLine(pan))
		}
		m[outcomeString(d, obs, w.finalKey())] = strings.Join(desc, " ; ")
		res := &bfsResult{}
		w.finish(res)
		if len(res.Violations) > 0 {
			return nil, fmt.Errorf("sequential order %v: %v", desc, res.Violations[0])
		}
	}
	seqOutcomeCache[string(raw)] = m
	return m, nil
}

func init() {
	scenarios["srv"] = func(raw json.RawMessage) *scenario {
		var d srvScenarioDef
		json.Unmarshal(raw, &d)
		return &scenario{Name: d.Name, Run: func(choose vsched.Chooser) *execOutcome {
			out := &execOutcome{}
			seq, err := d.sequentialOutcomes()
			if err != nil {
				// A sequential order that already fails is reported once, as a violation of the sequential rules.
				out.Res = &vsched.Result{}
				out.Violations = append(out.Violations, vio{"sequential-order-fails", err.Error()})
				out.Outcome = "sequential failure"
				return out
			}
			w, err := d.prepare()
			if err != nil {
				out.Res = &vsched.Result{}
				out.HarnessErr = err.Error()
				return out
			}
			vsync.ResetRegistry()
			if d.PageTear {
				vos.SetPageTear(true, pageTearPhantom(w.Dir))
				defer vos.SetPageTear(false, nil)
			}
			obs := make([][]string, len(d.Threads))
			var names []string
			var bodies []func()
			for t := range d.Threads {
				t := t
				names = append(names, fmt.Sprintf("T%d", t))
				bodies = append(bodies, func() {
					for _, op := range d.Threads[t] {
						obs[t] = append(obs[t], w.realOp(op))
					}
				})
			}
			res := vsched.Run(names, bodies, choose, vsched.Options{PointOnFS: d.FSPoints})
			out.Res = res
			bad := false
			for _, p := range res.Panics {
				out.Violations = append(out.Violations, vio{"panic/" + panicSite(p), p})
				bad = true
			}
			if res.Deadlock {
				out.Violations = append(out.Violations, vio{"deadlock", res.DeadlockInfo})
				bad = true
			}
			if res.StepCapHit {
				bad = true
			}
			if !bad && vsync.HeldMutexes() != 0 {
				out.Violations = append(out.Violations, vio{"lock-held-at-end", res.LockTrace})
				bad = true
			}
			if bad {
				w.Abandon()
				out.Outcome = "aborted"
				return out
			}
			final := w.finalKey()
			oc := outcomeString(&d, obs, final)
			out.Outcome = oc
			if _, ok := seq[oc]; !ok {
				var some []string
				for k, v := range seq {
					some = append(some, v+" => "+k)
					if len(some) >= 3 {
						break
					}
				}
				out.Violations = append(out.Violations, vio{"not-sequential", map[string]interface{}{"observed": oc, "sequential_outcomes": len(seq), "examples": some}})
			}
			if d.RatesLoose {
				if bad := ratesMisplaced(w.S.VerifSnapshot(), w.Now); bad != "" {
					out.Violations = append(out.Violations, vio{"impact-rate-misplaced", bad})
				}
			}
			if w.lastArchive != nil {
				if files, err := readZip(w.lastArchive); err == nil {
					out.Outcome += fmt.Sprintf("||archive: stats=%d reports=%d auths=%d gca=%d", len(files["allDeviceStats.dat"]), len(files["equipment-reports.dat"]), len(files["equipment-authorizations.dat"]), len(files["gcaPubKey.dat"]))
				}
			} else if strings.Contains(d.Name, "archive") {
				out.Outcome += "||no archive produced"
			}
			if extra := d.extraCheck(w); extra != nil {
				out.Violations = append(out.Violations, *extra)
			}
			// two threads collided iff some mutex was taken by two different threads
			by := map[string]map[string]bool{}
			for _, tr := range res.LockTrace {
				p := strings.Split(tr, ":")
				if by[p[2]] == nil {
					by[p[2]] = map[string]bool{}
				}
				by[p[2]][p[0]] = true
			}
			for _, ts := range by {
				if len(ts) >= 2 {
					out.Collided = true
				}
			}
			r := &bfsResult{}
			w.finish(r)
			for _, v := range r.Violations {
				out.Violations = append(out.Violations, v)
			}
			return out
		}}
	}
}

// panicSite extracts the repository function in which a panic happened.
func panicSite(p string) string {
	for _, line := range strings.Split(p, "\n") {
		if i := strings.Index(line, "gca-backend/"); i >= 0 && strings.Contains(line, "(") {
			s := line[i+len("gca-backend/"):]
			if j := strings.Index(s, "("); j > 0 && !strings.HasPrefix(s, "server.(*GCAServer).Verif") {
				if k := strings.LastIndex(s, "("); k > 0 {
					s = s[:k]
				}
				return s
			}
		}
	}
	return firstLine(p)
}
