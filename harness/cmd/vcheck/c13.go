package main

// C13 - race-free, deadlock-free, equal to a sequential run; C07 concurrent part.

import (
	"encoding/json"
	"fmt"
	"net"
	"os"
	"path/filepath"
	"sort"
	"strings"
	"sync"
	"time"

	"verifh/ev"
	"verifh/pool"
)

var stdInit = []string{"reg:G1:temp", "auth:1:kA:1000:G1", "auth:2:kB:1000:G1", "now:100"}

func c13Scenarios() []srvScenarioDef {
	withWeek := append(append([]string{}, stdInit...), "rep:1:kA:now:500", "rot")
	return []srvScenarioDef{
		{Name: "S1 impact job || ban of a listed device", Init: stdInit, Threads: [][]string{{"impact"}, {"auth:1:kX:1000:G1"}}, StateOnly: true, RatesLoose: true},
		{Name: "S2 impact job || rotation", Init: stdInit, Threads: [][]string{{"impact"}, {"rot"}}, StateOnly: true, RatesLoose: true},
		{Name: "S3 report || rotation || live statistics", Init: stdInit, Threads: [][]string{{"rep:1:kA:100:500"}, {"rot"}, {"get:0"}}},
		{Name: "S5 authorize || conflicting authorize || report for that id", Init: stdInit, Threads: [][]string{{"auth:3:kC:1000:G1"}, {"auth:3:kD:1000:G1"}, {"rep:3:kC:100:500"}}},
		{Name: "S6 sync handler || ban || server authorization (both mutexes)", Init: stdInit, Threads: [][]string{{"sync:1"}, {"auth:1:kX:1000:G1"}, {"sauth:S1:0:1:G1"}}},
		{Name: "S7 archived statistics with false negatives || plain archived statistics", Init: withWeek, Threads: [][]string{{"get:0:neg"}, {"get:0"}}},
		{Name: "S8 two reports for one slot || sync handler", Init: stdInit, Threads: [][]string{{"rep:1:kA:100:500"}, {"rep:1:kA:100:600"}, {"sync:1"}}},
		{Name: "S9 report || ban of its device || equipment list", Init: stdInit, Threads: [][]string{{"rep:1:kA:100:500", "rep:1:kA:101:500"}, {"auth:1:kX:1000:G1"}, {"equipment"}}},
		{Name: "S12 recent-reports || ban of that device || report", Init: append(append([]string{}, stdInit...), "rep:1:kA:100:500"), Threads: [][]string{{"recent:kA"}, {"auth:1:kX:1000:G1"}, {"rep:1:kA:101:600"}}},
		{Name: "S13 migration order || sync of that device || ban", Init: stdInit, Threads: [][]string{{"migr:kA:G3:G1:G3"}, {"sync:1"}, {"auth:1:kX:1000:G1"}}},
		{Name: "S14 new server || ban of that server || server list", Init: stdInit, Threads: [][]string{{"sauth:S1:0:1:G1"}, {"sauth:S1:1:1:G1"}, {"servers"}}},
		{Name: "S15 rotation || rotation || report", Init: append(append([]string{}, stdInit...), "now:2100"), Threads: [][]string{{"rot"}, {"rot"}, {"rep:1:kA:2100:500"}}},
		{Name: "S16 live statistics || new device || its first report", Init: stdInit, Threads: [][]string{{"get:0"}, {"auth:3:kC:1000:G1"}, {"rep:3:kC:100:500"}}},
		{Name: "S17 two reports for one slot || ban of another device, in a window that has rotated", Init: append(append([]string{}, stdInit...), "rot", "now:2116"), Threads: [][]string{{"rep:1:kA:2116:500"}, {"rep:1:kA:2116:600"}, {"auth:2:kX:1000:G1"}}},
		{Name: "S10 rotation || rotation-time statistics || report in second week", Init: append(append([]string{}, stdInit...), "now:2100"), Threads: [][]string{{"rot"}, {"get:2016"}, {"rep:2:kB:2100:700"}}},
	}
}

// S11 only matters for the race pass: the GCA key is read by the server- and
// migration-order handlers while a registration writes it.
func c13RaceOnly() []srvScenarioDef {
	return []srvScenarioDef{{Name: "S11 registration || server authorization || migration order", Init: []string{"now:100"},
		Threads: [][]string{{"reg:G1:temp"}, {"sauth:S1:0:1:G1"}, {"migr:kA:G3:G1:G3"}}}}
}

func c07Scenario() srvScenarioDef {
	return srvScenarioDef{Name: "S4 concurrent registrations and an authorization", Init: []string{"now:100"},
		Threads: [][]string{{"reg:G1:temp"}, {"reg:G2:temp"}, {"reg:G3:srv"}, {"auth:1:kA:1000:G1"}}}
}

// runScenarios explores the scenarios and reports into run.
func runScenarios(run *ev.Run, defs []srvScenarioDef, bound int, p *pool.Pool) (execs int, ok bool) {
	ok = true
	for _, d := range defs {
		st, bad := exploreSharded("srv", d, bound, 0, 2, p)
		execs += st.Executions
		if st.HarnessErr != "" {
			fmt.Println("HARNESS ERROR:", d.Name, st.HarnessErr)
			run.Count("harness_errors", 1)
			ok = false
			continue
		}
		for _, b := range bad {
			if b.Timeout {
				run.NotExhaustive("a shard of " + d.Name + " timed out (inconclusive)")
				continue
			}
			fmt.Println("HARNESS ERROR (worker):", d.Name, b.Err, firstLine(b.Panic))
			run.Count("harness_errors", 1)
			ok = false
		}
		for _, v := range st.Violations {
			run.Violation(v.Sig, map[string]interface{}{"scenario": d, "schedule": v.Schedule, "trace": v.Trace, "detail": v.Detail, "replay": mkReplay("explore1", exploreOneJob{Scenario: "srv", Arg: mustJSON(d), Schedule: v.Schedule})})
		}
		if st.StepCapHit > 0 || st.CapHit {
			run.NotExhaustive("execution or step cap hit in " + d.Name)
		}
		var oc []string
		for o := range st.Outcomes {
			if len(o) > 120 {
				o = o[:120] + "..."
			}
			oc = append(oc, o)
		}
		sort.Strings(oc)
		if len(oc) > 2 {
			oc = oc[:2]
		}
		for o := range st.Outcomes {
			run.Distinct("outcome", d.Name+"|"+o)
		}
		run.Count("collided_executions", int64(st.Collided))
		run.Sample(map[string]interface{}{"scenario": d.Name, "threads": d.Threads, "executions": st.Executions, "distinct_outcomes": len(st.Outcomes), "executions_with_contention": st.Collided, "longest_schedule": st.MaxSteps, "schedule_sample": st.Sample})
		if len(st.Outcomes) <= 1 && st.Executions > 1 {
			run.Coverage["single_outcome_scenarios"] = fmt.Sprint(run.Coverage["single_outcome_scenarios"], " ", d.Name)
		}
	}
	return
}

func finishScenarios(run *ev.Run, execs, nScen, bound int, extraRule string) {
	run.Coverage["states"] = run.DistinctCount("outcome")
	run.Coverage["transitions"] = execs
	run.Coverage["schedules"] = execs
	run.Coverage["traces_validated_against_impl"] = execs
	run.Coverage["evaluations"] = execs
	run.Coverage["distinct_nontrivial"] = run.DistinctCount("outcome")
	run.Coverage["scenarios"] = nScen
	if bound < 0 {
		run.Coverage["preemption_bound"] = "unbounded"
	} else {
		run.Coverage["preemption_bound"] = bound
	}
	run.Coverage["rule"] = "every schedule of the scenario threads at lock acquisitions of the real code (cooperative scheduler), depth-first over choice prefixes up to the preemption bound; one execution = fresh real server + set-up + controlled run; distinct = (observations, canonical final state) outcomes; oracle: no panic, no deadlock, all mutexes free, CheckInvariants passes, outcome is one of the sequential orders' outcomes" + extraRule
}

// c13UDPBurst: two datagrams reach the REAL UDP listener while every handler has to wait for the server mutex (the
// harness holds it); once it is released both reports must have been integrated, exactly as if they had been
// handled one after the other. A datagram that the loopback interface lost is inconclusive; a report missing while
// the server's log says it handled a duplicate is a datagram overwritten before its handler read it.
func c13UDPBurst() *jobReport {
	rep := &jobReport{Reasons: map[string]int{}}
	w, err := newStdWorld("c13udp")
	if err != nil {
		rep.fail("harness/setup", err.Error())
		return rep
	}
	defer func() {
		if p := safely(func() { w.Close() }); p != "" {
			rep.fail("close-panic", firstLine(p))
		}
		w.Cleanup()
	}()
	w.setNow(1000)
	_, _, udp := w.S.Ports()
	conn, err := net.Dial("udp", fmt.Sprintf("127.0.0.1:%d", udp))
	if err != nil {
		rep.fail("harness/dial", err.Error())
		return rep
	}
	defer conn.Close()
	for round := 0; round < 3; round++ {
		tsA, tsB := uint32(1003+10*round), uint32(1004+10*round)
		a, b := signedReport(1, tsA, 50, w.A.Priv), signedReport(1, tsB, 60, w.A.Priv)
		logPath := filepath.Join(w.Dir, "server.log")
		fi, _ := os.Stat(logPath)
		w.S.VerifHoldMu(func() {
			conn.Write(a)
			time.Sleep(40 * time.Millisecond)
			conn.Write(b)
			time.Sleep(80 * time.Millisecond)
		})
		has := func() (bool, bool) {
			var ha, hb bool
			for _, sl := range w.S.VerifSnapshot().Reports[1] {
				ts := w.S.VerifSnapshot().ReportsOffset + sl.Index
				ha = ha || (ts == tsA && sl.Report.PowerOutput == 50)
				hb = hb || (ts == tsB && sl.Report.PowerOutput == 60)
			}
			return ha, hb
		}
		deadline := time.Now().Add(3 * time.Second)
		ha, hb := has()
		for !(ha && hb) && time.Now().Before(deadline) {
			time.Sleep(5 * time.Millisecond)
			ha, hb = has()
		}
		rep.Evals++
		if ha && hb {
			rep.Reasons["both datagrams of a burst integrated"]++
			rep.Accepted++
			continue
		}
		lb, _ := os.ReadFile(logPath)
		tail := ""
		if fi != nil && int64(len(lb)) >= fi.Size() {
			tail = string(lb[fi.Size():])
		}
		if strings.Contains(tail, "duplicate report") {
			rep.fail("datagram-overwritten-before-its-handler-read-it", map[string]interface{}{"first_integrated": ha, "second_integrated": hb, "log": tailStr(tail, 600)})
			return rep
		}
		rep.Inconclusive = append(rep.Inconclusive, fmt.Sprintf("UDP burst round %d: a datagram did not arrive (first=%v second=%v) and the log shows no duplicate handling: loss on the loopback interface, inconclusive", round, ha, hb))
	}
	return rep
}

func init() {
	pool.Register("c13udp", func(data json.RawMessage) (interface{}, error) { return c13UDPBurst(), nil })
	checks["C13"] = func(tier string) int {
		run := newRun("C13", tier, "model_checking")
		bound := 2
		if tier == "thorough" {
			bound = -1
		}
		p := pool.New(0)
		defs := append(append(c13Scenarios(), c07Scenario()), c13RaceOnly()...)
		execs, ok := runScenarios(run, defs, bound, p)
		lockPaths(run, "server", "glow")
		// the real UDP listener: a burst of two datagrams while handlers wait for the mutex
		for _, r := range pool.New(1).Map("c13udp", []interface{}{struct{}{}}, nil) {
			var jr jobReport
			if r.Err != "" || r.Panic != "" || r.Timeout || json.Unmarshal(r.Data, &jr) != nil {
				fmt.Println("HARNESS ERROR: UDP burst job:", r.Err, firstLine(r.Panic), r.Timeout)
				run.Count("harness_errors", 1)
				ok = false
				continue
			}
			for _, v := range jr.Violations {
				if strings.HasPrefix(v.Sig, "harness/") {
					fmt.Println("HARNESS ERROR:", v.Sig, v.Detail)
					run.Count("harness_errors", 1)
					ok = false
					continue
				}
				run.Violation(v.Sig, map[string]interface{}{"detail": v.Detail, "replay": mkReplay("c13udp", struct{}{})})
			}
			for _, inc := range jr.Inconclusive {
				run.NotExhaustive(inc)
			}
			run.Coverage["udp_bursts_through_the_real_listener"] = jr.Evals
		}
		run.Coverage["race_pass"] = racePass("c13")
		if rp, _ := run.Coverage["race_pass"].(map[string]interface{}); rp != nil {
			if n, _ := rp["data_races"].(int); n > 0 {
				run.Violation("data-race/"+fmt.Sprint(rp["first_site"]), rp)
			}
			if n, _ := rp["harness_only_reports"].(int); n > 0 {
				fmt.Println("HARNESS ERROR: the race pass reported", n, "races between harness functions only")
				run.Count("harness_errors", 1)
				ok = false
			}
		}
		finishScenarios(run, execs, len(defs), bound, "; plus the same bodies free-running under the race detector (a report there is a violation, silence is auxiliary)")
		run.Assumption("unsynchronised accesses are invisible to the cooperative scheduler; they are looked for by the separate free-running -race pass of the same scenario bodies")
		rc := run.Finish()
		if !ok && rc == 0 {
			return 3
		}
		return rc
	}
	raceBodies["c13"] = func() {
		defs := append(append(c13Scenarios(), c07Scenario()), c13RaceOnly()...)
		for round := 0; round < 12; round++ {
			for _, d := range defs {
				w, err := d.prepare()
				if err != nil {
					fmt.Println("race body: prepare:", err)
					continue
				}
				var wg sync.WaitGroup
				for t := range d.Threads {
					t := t
					wg.Add(1)
					go func() {
						defer wg.Done()
						defer func() { recover() }()
						for _, op := range d.Threads[t] {
							w.realOp(op)
						}
					}()
				}
				wg.Wait()
				r := &bfsResult{}
				w.finish(r)
			}
		}
	}
}

var _ = json.Marshal

func mustJSON(v interface{}) json.RawMessage {
	b, _ := json.Marshal(v)
	return b
}
