// Package ev writes evidence files, reports violations with replay artefacts
// and applies the committed known-findings list.
package ev

import (
	"crypto/sha256"
	"encoding/hex"
	"encoding/json"
	"fmt"
	"os"
	"path/filepath"
	"sort"
	"strconv"
	"strings"
	"sync"
	"time"
)

var Root = func() string {
	if r := os.Getenv("VERIF_ROOT"); r != "" {
		return r
	}
	return "/verif"
}()

type Finding struct {
	Property  string `json:"property"`
	Signature string `json:"signature"`
	Status    string `json:"status"` // known | fixed
	Commit    string `json:"commit,omitempty"`
	What      string `json:"what"`
}

type Run struct {
	mu         sync.Mutex
	Prop       string
	Tier       string
	Seed       int
	Level      string
	start      time.Time
	Coverage   map[string]interface{}
	Assume     []string
	violations int
	known      map[string]Finding
	knownSeen  map[string]bool
	vioSeen    map[string]bool
	samples    []interface{}
	counters   map[string]int64
	distinct   map[string]map[string]struct{}
	Exhaustive bool
	// Confirm, if set, re-executes a violation's replay object and returns the
	// signatures it produced. A new violation is reported only if it
	// reproduces (twice); otherwise it is a harness determinism error.
	Confirm        func(replay interface{}) []string
	nonReproducing int
}

func NewRun(prop, tier, level string) *Run {
	seed, _ := strconv.Atoi(os.Getenv("VERIF_SEED"))
	r := &Run{Prop: prop, Tier: tier, Seed: seed, Level: level, start: time.Now(), Coverage: map[string]interface{}{},
		known: map[string]Finding{}, knownSeen: map[string]bool{}, vioSeen: map[string]bool{}, counters: map[string]int64{}, distinct: map[string]map[string]struct{}{}, Exhaustive: true}
	if pb, err := os.ReadFile(filepath.Join(Root, ".cache", "overlay", "passthrough.json")); err == nil {
		var pt map[string][]string
		if json.Unmarshal(pb, &pt) == nil && len(pt) > 0 {
			r.Assume = append(r.Assume, fmt.Sprintf("identifiers used by the current tree that the shims do not model and that are passed through uninstrumented: %v", pt))
		}
	}
	b, err := os.ReadFile(filepath.Join(Root, "known_findings.json"))
	if err == nil {
		var fs []Finding
		if err := json.Unmarshal(b, &fs); err != nil {
			fmt.Fprintln(os.Stderr, "known_findings.json unreadable:", err)
			os.Exit(3)
		}
		for _, f := range fs {
			if f.Property == prop && f.Status == "known" {
				r.known[f.Signature] = f
			}
		}
	}
	return r
}

func (r *Run) Count(key string, n int64) {
	r.mu.Lock()
	r.counters[key] += n
	r.mu.Unlock()
}

func (r *Run) Counter(key string) int64 { r.mu.Lock(); defer r.mu.Unlock(); return r.counters[key] }

// Distinct records value under set and reports whether it was new.
func (r *Run) Distinct(set, value string) bool {
	r.mu.Lock()
	defer r.mu.Unlock()
	m := r.distinct[set]
	if m == nil {
		m = map[string]struct{}{}
		r.distinct[set] = m
	}
	if _, ok := m[value]; ok {
		return false
	}
	m[value] = struct{}{}
	return true
}

func (r *Run) DistinctCount(set string) int {
	r.mu.Lock()
	defer r.mu.Unlock()
	return len(r.distinct[set])
}

func (r *Run) Sample(s interface{}) {
	r.mu.Lock()
	if len(r.samples) < 8 {
		r.samples = append(r.samples, s)
	}
	r.mu.Unlock()
}

func (r *Run) Assumption(s string) { r.mu.Lock(); r.Assume = append(r.Assume, s); r.mu.Unlock() }

func (r *Run) NotExhaustive(why string) {
	r.mu.Lock()
	r.Exhaustive = false
	r.Coverage["not_exhaustive_because"] = why
	r.mu.Unlock()
}

// Violation reports one violation. signature identifies the failing oracle
// clause plus the minimal input class; detail is written to the replay file.
func (r *Run) Violation(signature string, detail interface{}) {
	r.mu.Lock()
	defer r.mu.Unlock()
	if f, ok := r.known[signature]; ok {
		if !r.knownSeen[signature] {
			r.knownSeen[signature] = true
			fmt.Printf("KNOWN-FINDING: property=%s %s (%s)\n", r.Prop, f.What, signature)
		}
		return
	}
	if r.vioSeen[signature] {
		return
	}
	r.vioSeen[signature] = true
	if m, ok := detail.(map[string]interface{}); ok && r.Confirm != nil && m["replay"] != nil {
		r.mu.Unlock()
		reproduced := 0
		for i := 0; i < 2; i++ {
			for _, s := range r.Confirm(m["replay"]) {
				if s == signature {
					reproduced++
					break
				}
			}
		}
		r.mu.Lock()
		if reproduced < 2 {
			r.nonReproducing++
			r.counters["harness_errors"]++
			db, _ := json.Marshal(detail)
			if len(db) > 1500 {
				db = db[:1500]
			}
			fmt.Printf("HARNESS ERROR: violation %q did not reproduce when replayed (%d of 2); not reported as a violation; detail: %s\n", signature, reproduced, db)
			return
		}
		m["reproduced"] = "replayed twice in a fresh worker, same signature both times"
	}
	r.violations++
	body, _ := json.MarshalIndent(map[string]interface{}{"property": r.Prop, "signature": signature, "tier": r.Tier, "detail": detail}, "", " ")
	h := sha256.Sum256([]byte(r.Prop + "/" + signature))
	dir := filepath.Join(Root, "replays")
	os.MkdirAll(dir, 0755)
	path := filepath.Join(dir, fmt.Sprintf("%s-%s.json", r.Prop, hex.EncodeToString(h[:6])))
	os.WriteFile(path, body, 0644)
	fmt.Printf("VIOLATION property=%s replay=%s\n", r.Prop, path)
	fmt.Printf("  signature: %s\n", signature)
	s := string(body)
	if len(s) > 1500 {
		s = s[:1500] + "..."
	}
	fmt.Printf("  %s\n", strings.ReplaceAll(s, "\n", "\n  "))
}

func (r *Run) Violations() int { r.mu.Lock(); defer r.mu.Unlock(); return r.violations }

// Finish writes the evidence file and returns the process exit code.
func (r *Run) Finish() int {
	r.mu.Lock()
	defer r.mu.Unlock()
	cov := r.Coverage
	for k, v := range r.counters {
		if _, ok := cov[k]; !ok {
			cov[k] = v
		}
	}
	for k, m := range r.distinct {
		key := "distinct_" + k
		if _, ok := cov[key]; !ok {
			cov[key] = len(m)
		}
	}
	if r.samples == nil {
		r.samples = []interface{}{}
	}
	cov["samples"] = r.samples
	cov["exhaustive"] = r.Exhaustive
	var kf []string
	for s := range r.knownSeen {
		kf = append(kf, s)
	}
	sort.Strings(kf)
	if len(kf) > 0 {
		cov["known_findings_seen"] = kf
	}
	out := map[string]interface{}{
		"property_id": r.Prop, "tier": r.Tier, "seed": r.Seed, "level": r.Level,
		"coverage": cov, "assumptions": r.Assume, "wall_s": time.Since(r.start).Seconds(), "violations": r.violations,
	}
	if r.Assume == nil {
		out["assumptions"] = []string{}
	}
	b, _ := json.MarshalIndent(out, "", " ")
	dir := filepath.Join(Root, "evidence")
	os.MkdirAll(dir, 0755)
	if err := os.WriteFile(filepath.Join(dir, r.Prop+".json"), b, 0644); err != nil {
		fmt.Fprintln(os.Stderr, "cannot write evidence:", err)
		return 3
	}
	fmt.Printf("%s %s: violations=%d exhaustive=%v wall=%.1fs\n", r.Prop, r.Tier, r.violations, r.Exhaustive, time.Since(r.start).Seconds())
	if r.violations > 0 {
		return 1
	}
	return 0
}
