// Package vsched is the cooperative scheduler behind the shims. In
// pass-through mode (no active execution) every call is a cheap no-op and the
// real primitives behave as usual. While an execution is active, goroutines
// that were registered as threads stop at every scheduling point and continue
// only when the explorer picks them, so one thread runs at a time and the
// interleaving is exactly the sequence of choices.
package vsched

import (
	"bytes"
	"fmt"
	"runtime"
	"strconv"
	"sync"
	"sync/atomic"
)

// GoID returns the id of the calling goroutine.
func GoID() int64 {
	var buf [64]byte
	n := runtime.Stack(buf[:], false)
	// "goroutine 4707 [running]:"
	b := buf[10:n]
	i := bytes.IndexByte(b, ' ')
	if i < 0 {
		return -1
	}
	id, err := strconv.ParseInt(string(b[:i]), 10, 64)
	if err != nil {
		return -1
	}
	return id
}

// Resource is something a thread may have to wait for at a scheduling point.
type Resource interface {
	// Free reports whether a thread waiting for the resource may proceed.
	Free() bool
	// Name is a stable, address-free name.
	Name() string
}

// Point describes where a thread is parked.
type PointInfo struct {
	Kind string // "start", "lock", "now", "fs", "spawn", ...
	Res  string // resource name, if any
}

type Thread struct {
	ID    int
	Name  string
	goid  int64
	wake  chan struct{}
	res   Resource
	info  PointInfo
	done  bool
	panic interface{}
	stack string
}

// Choice point record of one execution.
type Step struct {
	Enabled        []int // thread ids enabled at this point, canonical order
	Chosen         int   // index into Enabled
	Running        int   // thread id that ran last (-1 at start)
	RunningEnabled bool
	Info           PointInfo // where the chosen thread was parked
}

type Exec struct {
	mu           sync.Mutex
	threads      []*Thread
	byGoid       map[int64]*Thread
	report       chan *Thread
	Steps        []Step
	Deadlock     bool
	DeadlockInfo string
	StepCapHit   bool
	aborted      atomic.Bool
	// Per-execution mutex registry for address-free naming.
	mutexNames map[interface{}]string
	LockTrace  []string
	// Optional extra scheduling points.
	PointOnNow bool
	PointOnFS  bool
}

var active atomic.Pointer[Exec]

// Active returns the current controlled execution or nil.
func Active() *Exec { return active.Load() }

// Current returns the controlled thread of the calling goroutine, or nil.
func Current() *Thread {
	e := active.Load()
	if e == nil {
		return nil
	}
	g := GoID()
	e.mu.Lock()
	t := e.byGoid[g]
	e.mu.Unlock()
	return t
}

// NameMutex gives key a stable first-use name within the active execution.
func (e *Exec) NameOf(key interface{}, prefix string) string {
	e.mu.Lock()
	defer e.mu.Unlock()
	if n, ok := e.mutexNames[key]; ok {
		return n
	}
	n := fmt.Sprintf("%s%d", prefix, len(e.mutexNames))
	e.mutexNames[key] = n
	return n
}

// Yield parks the calling thread at a scheduling point until chosen again.
// It returns immediately for goroutines that are not controlled threads.
func Yield(kind string, res Resource) {
	e := active.Load()
	if e == nil {
		return
	}
	g := GoID()
	e.mu.Lock()
	t := e.byGoid[g]
	e.mu.Unlock()
	if t == nil {
		return
	}
	t.park(e, kind, res)
}

func (t *Thread) park(e *Exec, kind string, res Resource) {
	t.res = res
	t.info = PointInfo{Kind: kind}
	if res != nil {
		t.info.Res = res.Name()
	}
	e.report <- t
	<-t.wake
	if e.aborted.Load() {
		// The execution was abandoned (deadlock or cap): never resume the body.
		runtime.Goexit()
	}
	t.res = nil
}

// Go starts fn. From a controlled thread the child becomes a new controlled
// thread of the same execution; otherwise it is a plain goroutine.
func Go(fn func()) {
	e := active.Load()
	if e == nil {
		go fn()
		return
	}
	parent := Current()
	if parent == nil {
		go fn()
		return
	}
	e.mu.Lock()
	t := &Thread{ID: len(e.threads), Name: fmt.Sprintf("%s.child%d", parent.Name, len(e.threads)), wake: make(chan struct{})}
	e.threads = append(e.threads, t)
	e.mu.Unlock()
	registered := make(chan struct{})
	go e.threadMain(t, fn, registered)
	<-registered
}

func (e *Exec) threadMain(t *Thread, fn func(), registered chan struct{}) {
	t.goid = GoID()
	e.mu.Lock()
	e.byGoid[t.goid] = t
	e.mu.Unlock()
	t.info = PointInfo{Kind: "start"}
	close(registered)
	<-t.wake
	if e.aborted.Load() {
		return
	}
	defer func() {
		if r := recover(); r != nil {
			buf := make([]byte, 16384)
			n := runtime.Stack(buf, false)
			t.panic = r
			t.stack = string(buf[:n])
		}
		t.done = true
		if e.aborted.Load() {
			return
		}
		e.report <- t
	}()
	fn()
}

// Chooser picks an index into enabled.
type Chooser func(step int, enabled []int, running int, runningEnabled bool) int

// Result of one controlled execution.
type Result struct {
	Steps        []Step
	Deadlock     bool
	DeadlockInfo string
	StepCapHit   bool
	Panics       []string // "thread name: value\nstack"
	LockTrace    []string
}

type Options struct {
	PointOnNow bool
	PointOnFS  bool
	StepCap    int
}

// Run executes bodies as controlled threads under chooser and returns the
// record of the execution. Only one Run may be active per process.
func Run(names []string, bodies []func(), choose Chooser, opt Options) *Result {
	if opt.StepCap == 0 {
		opt.StepCap = 10000
	}
	e := &Exec{byGoid: map[int64]*Thread{}, report: make(chan *Thread), mutexNames: map[interface{}]string{}, PointOnNow: opt.PointOnNow, PointOnFS: opt.PointOnFS}
	for i, b := range bodies {
		t := &Thread{ID: i, Name: names[i], wake: make(chan struct{})}
		e.threads = append(e.threads, t)
		reg := make(chan struct{})
		go e.threadMain(t, b, reg)
		<-reg
	}
	if !active.CompareAndSwap(nil, e) {
		panic("vsched: nested Run")
	}
	defer active.Store(nil)
	running := -1
	for step := 0; ; step++ {
		e.mu.Lock()
		var enabled []int
		unfinished := 0
		runningEnabled := false
		for _, t := range e.threads {
			if t.done {
				continue
			}
			unfinished++
			if t.res == nil || t.res.Free() {
				if t.ID == running {
					runningEnabled = true
				} else {
					enabled = append(enabled, t.ID)
				}
			}
		}
		if runningEnabled {
			enabled = append([]int{running}, enabled...)
		}
		e.mu.Unlock()
		if unfinished == 0 {
			break
		}
		if len(enabled) == 0 {
			e.Deadlock = true
			e.mu.Lock()
			for _, t := range e.threads {
				if !t.done {
					e.DeadlockInfo += fmt.Sprintf("%s blocked at %s(%s); ", t.Name, t.info.Kind, t.info.Res)
				}
			}
			e.mu.Unlock()
			e.abort()
			break
		}
		if step >= opt.StepCap {
			e.StepCapHit = true
			e.abort()
			break
		}
		idx := choose(step, enabled, running, runningEnabled)
		if idx < 0 || idx >= len(enabled) {
			e.abort()
			panic(fmt.Sprintf("vsched: choice %d out of range (enabled %v) at step %d", idx, enabled, step))
		}
		e.mu.Lock()
		t := e.threads[enabled[idx]]
		e.mu.Unlock()
		e.Steps = append(e.Steps, Step{Enabled: enabled, Chosen: idx, Running: running, RunningEnabled: runningEnabled, Info: t.info})
		running = t.ID
		t.wake <- struct{}{}
		<-e.report // the thread that ran parks again or finishes (spawned threads register synchronously)
	}
	r := &Result{Steps: e.Steps, Deadlock: e.Deadlock, DeadlockInfo: e.DeadlockInfo, StepCapHit: e.StepCapHit, LockTrace: e.LockTrace}
	for _, t := range e.threads {
		if t.panic != nil {
			r.Panics = append(r.Panics, fmt.Sprintf("%s: %v\n%s", t.Name, t.panic, t.stack))
		}
	}
	return r
}

// abort releases every parked thread so that its goroutine exits.
func (e *Exec) abort() {
	e.aborted.Store(true)
	e.mu.Lock()
	ts := append([]*Thread(nil), e.threads...)
	e.mu.Unlock()
	for _, t := range ts {
		if !t.done {
			select {
			case t.wake <- struct{}{}:
			default:
				// not parked on wake (cannot happen: one thread runs at a time)
			}
		}
	}
}

// Trace appends to the lock trace of the active execution.
func Trace(s string) {
	e := active.Load()
	if e == nil {
		return
	}
	e.mu.Lock()
	e.LockTrace = append(e.LockTrace, s)
	e.mu.Unlock()
}
