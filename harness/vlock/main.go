// vlock: explicit-state search over (basic block x held-lock set x pending
// defers) of every function of the repository that locks a mutex, on the SSA
// form of the current tree. Invariants: every return is reached with the
// entry lock set; no mutex is locked while already held (directly or through
// a statically called function); the acquired-while-holding relation between
// distinct mutexes has no cycle.
package main

import (
	"encoding/json"
	"fmt"
	"go/token"
	"go/types"
	"os"
	"sort"
	"strings"

	"golang.org/x/tools/go/packages"
	"golang.org/x/tools/go/ssa"
	"golang.org/x/tools/go/ssa/ssautil"
)

type finding struct {
	Kind string `json:"kind"`
	Func string `json:"func"`
	Pos  string `json:"pos"`
	What string `json:"what"`
}

type result struct {
	Functions   int       `json:"functions_with_lock_operations"`
	States      int       `json:"states"`
	Transitions int       `json:"transitions"`
	Returns     int       `json:"returns_checked"`
	Mutexes     []string  `json:"mutexes"`
	Edges       []string  `json:"acquired_while_holding"`
	Findings    []finding `json:"findings"`
	Capped      []string  `json:"capped_functions"`
}

var prog *ssa.Program

// mutexName names the mutex operand of a Lock/Unlock call by the struct type
// and field chain it is reached through.
func mutexName(v ssa.Value) string {
	switch x := v.(type) {
	case *ssa.FieldAddr:
		st := x.X.Type().Underlying().(*types.Pointer).Elem()
		name := st.String()
		if n, ok := st.(*types.Named); ok {
			name = n.Obj().Pkg().Name() + "." + n.Obj().Name()
		}
		f := st.Underlying().(*types.Struct).Field(x.Field)
		return name + "." + f.Name()
	case *ssa.UnOp:
		return mutexName(x.X)
	case *ssa.Parameter:
		return "param:" + x.Name()
	case *ssa.Alloc:
		return "local:" + x.Comment
	case *ssa.Global:
		return "global:" + x.Name()
	}
	return fmt.Sprintf("?%T", v)
}

type lockOp struct {
	kind  string // lock | unlock
	mutex string
}

func classify(c *ssa.CallCommon) *lockOp {
	fn := c.StaticCallee()
	if fn == nil || fn.Signature.Recv() == nil {
		return nil
	}
	recv := fn.Signature.Recv().Type().String()
	if !(strings.HasSuffix(recv, "sync.Mutex") || strings.HasSuffix(recv, "sync.RWMutex") || strings.HasSuffix(recv, "glow.SafeMu")) {
		return nil
	}
	if len(c.Args) == 0 {
		return nil
	}
	switch fn.Name() {
	case "Lock", "RLock":
		return &lockOp{"lock", mutexName(c.Args[0])}
	case "Unlock", "RUnlock":
		return &lockOp{"unlock", mutexName(c.Args[0])}
	}
	return nil
}

// acquires[f] = mutexes f may lock, directly or through static callees.
var acquires = map[*ssa.Function]map[string]bool{}

func computeAcquires(fns []*ssa.Function) {
	for _, f := range fns {
		acquires[f] = map[string]bool{}
	}
	changed := true
	for changed {
		changed = false
		for _, f := range fns {
			for _, b := range f.Blocks {
				for _, in := range b.Instrs {
					var cc *ssa.CallCommon
					switch x := in.(type) {
					case *ssa.Call:
						cc = &x.Call
					case *ssa.Defer:
						cc = &x.Call
					case *ssa.Go:
						continue
					}
					if cc == nil {
						continue
					}
					if op := classify(cc); op != nil {
						if op.kind == "lock" && !acquires[f][op.mutex] {
							acquires[f][op.mutex] = true
							changed = true
						}
						continue
					}
					if callee := cc.StaticCallee(); callee != nil {
						for m := range acquires[callee] {
							if !acquires[f][m] {
								acquires[f][m] = true
								changed = true
							}
						}
					}
				}
			}
		}
	}
}

type state struct {
	block  int
	held   string // sorted, comma-joined multiset
	defers string // '|'-joined list of deferred unlocks (innermost last)
}

func heldAdd(h, m string) string {
	parts := split(h)
	parts = append(parts, m)
	sort.Strings(parts)
	return strings.Join(parts, ",")
}

func heldRemove(h, m string) (string, bool) {
	parts := split(h)
	for i, p := range parts {
		if p == m {
			parts = append(parts[:i], parts[i+1:]...)
			return strings.Join(parts, ","), true
		}
	}
	return h, false
}

func heldHas(h, m string) bool {
	for _, p := range split(h) {
		if p == m {
			return true
		}
	}
	return false
}

func split(h string) []string {
	if h == "" {
		return nil
	}
	return strings.Split(h, ",")
}

// containsLock reports whether a value of type t embeds a sync primitive by value.
func containsLock(t types.Type, depth int) bool {
	if depth > 6 {
		return false
	}
	if n, ok := t.(*types.Named); ok {
		if o := n.Obj(); o != nil && o.Pkg() != nil && o.Pkg().Path() == "sync" {
			switch o.Name() {
			case "Mutex", "RWMutex", "WaitGroup", "Once", "Cond":
				return true
			}
		}
	}
	switch u := t.Underlying().(type) {
	case *types.Struct:
		for i := 0; i < u.NumFields(); i++ {
			if containsLock(u.Field(i).Type(), depth+1) {
				return true
			}
		}
	case *types.Array:
		return containsLock(u.Elem(), depth+1)
	}
	return false
}

func main() {
	repo := os.Args[1]
	cfg := &packages.Config{Mode: packages.LoadAllSyntax, Dir: repo, BuildFlags: []string{"-tags=test"}, Env: append(os.Environ(), "GOFLAGS=-mod=mod")}
	pkgs, err := packages.Load(cfg, "./glow", "./server", "./client")
	if err != nil || packages.PrintErrors(pkgs) > 0 {
		fmt.Fprintln(os.Stderr, "vlock: load failed:", err)
		os.Exit(3)
	}
	var spkgs []*ssa.Package
	prog, spkgs = ssautil.AllPackages(pkgs, ssa.InstantiateGenerics)
	prog.Build()
	own := map[*ssa.Package]bool{}
	for _, p := range spkgs {
		if p != nil {
			own[p] = true
		}
	}
	var fns []*ssa.Function
	for f := range ssautil.AllFunctions(prog) {
		if f.Pkg != nil && own[f.Pkg] && len(f.Blocks) > 0 {
			fns = append(fns, f)
		} else if f.Parent() != nil && f.Parent().Pkg != nil && own[f.Parent().Pkg] && len(f.Blocks) > 0 {
			fns = append(fns, f)
		}
	}
	sort.Slice(fns, func(i, j int) bool { return fns[i].String() < fns[j].String() })
	computeAcquires(fns)
	res := &result{}
	mutexes := map[string]bool{}
	edges := map[string]bool{}
	add := func(kind string, f *ssa.Function, in ssa.Instruction, what string) {
		pos := ""
		if in != nil {
			pos = prog.Fset.Position(in.Pos()).String()
		}
		res.Findings = append(res.Findings, finding{kind, f.String(), pos, what})
	}
	// locks copied by value (what `go vet -copylocks` looks for; the pinned test commands run with -vet=off): a
	// parameter, receiver or result whose type holds a mutex by value, or a load of such a struct through a
	// pointer. The copy is a different mutex with a snapshot of the state.
	for _, f := range fns {
		if strings.Contains(f.String(), "SafeMu") || strings.Contains(f.String(), "Verif") {
			continue
		}
		for _, prm := range f.Params {
			if containsLock(prm.Type(), 0) {
				add("lock-copied-by-value", f, nil, "parameter or receiver "+prm.Name()+" of type "+prm.Type().String()+" holds a mutex by value: every call locks a private copy")
			}
		}
		for _, b := range f.Blocks {
			for _, in := range b.Instrs {
				if u, ok := in.(*ssa.UnOp); ok && u.Op == token.MUL && containsLock(u.Type(), 0) {
					add("lock-copied-by-value", f, in, "loads a value of type "+u.Type().String()+", which holds a mutex by value")
				}
			}
		}
	}
	for _, f := range fns {
		hasOp := false
		for _, b := range f.Blocks {
			for _, in := range b.Instrs {
				var cc *ssa.CallCommon
				switch x := in.(type) {
				case *ssa.Call:
					cc = &x.Call
				case *ssa.Defer:
					cc = &x.Call
				}
				if cc != nil && classify(cc) != nil {
					hasOp = true
				}
			}
		}
		if !hasOp {
			continue
		}
		if strings.Contains(f.String(), "SafeMu") || strings.Contains(f.String(), "lockMap") {
			continue // the debugging mutex wrapper manages its own inner lock by design
		}
		res.Functions++
		seen := map[state]bool{}
		work := []state{{0, "", ""}}
		seen[work[0]] = true
		reported := map[string]bool{}
		for len(work) > 0 {
			s := work[len(work)-1]
			work = work[:len(work)-1]
			res.States++
			if len(seen) > 200000 {
				res.Capped = append(res.Capped, f.String())
				break
			}
			b := f.Blocks[s.block]
			held, defers := s.held, s.defers
			dead := false
			for _, in := range b.Instrs {
				switch x := in.(type) {
				case *ssa.Call:
					if op := classify(&x.Call); op != nil {
						mutexes[op.mutex] = true
						if op.kind == "lock" {
							if heldHas(held, op.mutex) && !reported["relock"+op.mutex] {
								reported["relock"+op.mutex] = true
								add("self-relock", f, in, "locks "+op.mutex+" while it is already held on this path")
							}
							for _, h := range split(held) {
								if h != op.mutex {
									edges[h+" -> "+op.mutex] = true
								}
							}
							held = heldAdd(held, op.mutex)
						} else {
							var ok bool
							held, ok = heldRemove(held, op.mutex)
							if !ok && !reported["unlock"+op.mutex] {
								reported["unlock"+op.mutex] = true
								add("unlock-of-unlocked", f, in, "unlocks "+op.mutex+" which is not held on this path")
							}
						}
					} else if callee := x.Call.StaticCallee(); callee != nil {
						for m := range acquires[callee] {
							if heldHas(held, m) && !reported["callrelock"+m+callee.String()] {
								reported["callrelock"+m+callee.String()] = true
								add("self-relock-through-call", f, in, "calls "+callee.String()+", which locks "+m+", while holding it")
							}
							for _, h := range split(held) {
								if h != m {
									edges[h+" -> "+m] = true
								}
							}
						}
					}
				case *ssa.Defer:
					if op := classify(&x.Call); op != nil {
						mutexes[op.mutex] = true
						defers += "|" + op.kind + ":" + op.mutex
					}
				case *ssa.RunDefers:
					ds := strings.Split(defers, "|")
					for i := len(ds) - 1; i >= 0; i-- {
						if ds[i] == "" {
							continue
						}
						kv := strings.SplitN(ds[i], ":", 2)
						if kv[0] == "unlock" {
							var ok bool
							held, ok = heldRemove(held, kv[1])
							if !ok && !reported["dunlock"+kv[1]] {
								reported["dunlock"+kv[1]] = true
								add("unlock-of-unlocked", f, in, "deferred unlock of "+kv[1]+" which is not held when the function returns")
							}
						} else {
							held = heldAdd(held, kv[1])
						}
					}
					defers = ""
				case *ssa.Return:
					res.Returns++
					if held != "" && !reported["ret"+held] {
						reported["ret"+held] = true
						add("returns-holding-lock", f, in, "a path returns while still holding "+held)
					}
				case *ssa.Panic:
					dead = true
				}
				if dead {
					break
				}
			}
			if dead {
				continue
			}
			for _, succ := range b.Succs {
				ns := state{succ.Index, held, defers}
				res.Transitions++
				if !seen[ns] {
					seen[ns] = true
					work = append(work, ns)
				}
			}
		}
	}
	for m := range mutexes {
		res.Mutexes = append(res.Mutexes, m)
	}
	sort.Strings(res.Mutexes)
	graph := map[string][]string{}
	for e := range edges {
		res.Edges = append(res.Edges, e)
		p := strings.Split(e, " -> ")
		graph[p[0]] = append(graph[p[0]], p[1])
	}
	sort.Strings(res.Edges)
	// cycle search
	var visit func(n string, stack []string, onstack map[string]bool) []string
	visit = func(n string, stack []string, onstack map[string]bool) []string {
		if onstack[n] {
			return append(stack, n)
		}
		onstack[n] = true
		for _, m := range graph[n] {
			if c := visit(m, append(stack, n), onstack); c != nil {
				return c
			}
		}
		onstack[n] = false
		return nil
	}
	for n := range graph {
		if c := visit(n, nil, map[string]bool{}); c != nil {
			res.Findings = append(res.Findings, finding{"lock-order-cycle", "", "", strings.Join(c, " -> ")})
			break
		}
	}
	sort.Slice(res.Findings, func(i, j int) bool { return res.Findings[i].Func+res.Findings[i].Kind < res.Findings[j].Func+res.Findings[j].Kind })
	b, _ := json.MarshalIndent(res, "", " ")
	fmt.Println(string(b))
}
