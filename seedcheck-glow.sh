#!/bin/bash
# variant for demos in package glow (no tags)
id=$1; prop=$2; wt=$3; dest=$4; shift 4
export GOFLAGS=-mod=mod GOPROXY=off GOSUMDB=off GOTOOLCHAIN=local
out=/verif/seeded/$id; mkdir -p $out
cp $wt/SEEDED/patch.diff $out/patch.diff; cp $wt/SEEDED/demo_test.go $out/demo_test.go; cp $wt/SEEDED/README.md $out/AGENT_README.md 2>/dev/null
cd $wt || exit 3
git checkout -q -- . ; cp SEEDED/demo_test.go $dest
demo_without=$(go test -count=1 -vet=off "$@" >/tmp/seed-$id-without.log 2>&1 && echo pass || echo FAIL)
git apply SEEDED/patch.diff || { echo "patch does not apply"; exit 3; }
build=$( (go build ./... && go build -tags test ./...) >/dev/null 2>&1 && echo ok || echo FAIL)
demo_with=$(go test -count=1 -vet=off "$@" >/tmp/seed-$id-with.log 2>&1 && echo pass || echo FAIL)
rm -f $dest
baseline=$(go test -mod=mod -vet=off -count=1 ./glow/... >/dev/null 2>&1 && echo pass || echo FAIL)
git checkout -q -- .
cd /verif
res=$(MUT_BASELINE=0 ./mut $prop $out/patch.diff 2>&1 | grep '^MUT')
caught=no; echo "$res" | grep -q 'exit=1 violations=[1-9]' && caught=yes
echo "SEED $id prop=$prop build=$build baseline=$baseline demo_without_patch=$demo_without demo_with_patch=$demo_with caught=$caught"
echo "  $res"
python3 - "$id" "$prop" "$build" "$baseline" "$demo_without" "$demo_with" "$caught" "$res" "$dest" "$*" <<'PY'
import json,sys,os
id,prop,build,baseline,dw,dwi,caught,res,dest,args=sys.argv[1:]
p='/verif/seeded/%s/meta.json'%id
m=json.load(open(p)) if os.path.exists(p) else {}
m.update({"id":id,"breaks_property":prop,"confirmed":{"builds_with_patch":build,"pinned_baseline_with_patch":baseline,"demo_without_patch":dw,"demo_with_patch":dwi},
 "demo":{"place_at":dest,"command":"go test -count=1 -vet=off "+args},
 "ran":["scratch worktree: git apply patch.diff; go build ./... && go build -tags test ./...; pinned baseline (glow) without the demo file; demo with and without the patch","/repo: git apply patch.diff; ./run %s quick; git checkout -- ."%prop],
 "check_result":res,"caught_by_quick_check":caught})
m.setdefault("needs_to_manifest","(see AGENT_README.md)")
json.dump(m,open(p,'w'),indent=1)
PY
