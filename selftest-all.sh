#!/bin/bash
# Applies every own self-test change and every seeded change to /repo in turn and reports the ones the quick check misses.
cd /verif
miss=0; n=0
for d in selftest/C*/; do p=$(basename $d); for f in $d*.diff; do n=$((n+1)); r=$(MUT_BASELINE=0 ./mut $p $f 2>&1 | grep '^MUT'); echo "$r" | grep -q 'exit=1 violations=[1-9]' || { echo "MISSED $r"; miss=$((miss+1)); }; done; done
for d in seeded/*/; do id=$(basename $d); python3 -c "import json,sys;sys.exit(1 if json.load(open('$d/meta.json')).get('obsolete') else 0)" || continue; p=$(python3 -c "import json;m=json.load(open('$d/meta.json'));print(m.get('check_with') or m['breaks_property'])"); n=$((n+1)); r=$(MUT_BASELINE=0 ./mut $p $d/patch.diff 2>&1 | grep '^MUT'); echo "$r" | grep -q 'exit=1 violations=[1-9]' || { echo "MISSED $id $r"; miss=$((miss+1)); }; done
echo "selftest-all: $n changes, $miss missed"
