#!/usr/bin/env python3
"""Regenerates MANIFEST.json from the table below (kept in one place so the file stays valid)."""
import json, subprocess
hooks_commits = subprocess.check_output(['git','-C','/repo','log','--format=%h %s']).decode().splitlines()
hook_shas = [l.split()[0] for l in hooks_commits if 'verif hooks' in l or 'verif hook' in l]
E1="E1 sched: stateless DFS over thread interleavings of the real code under a cooperative scheduler (vsync/vsched), iteratively preemption-bounded"
E2="E2 seqmc: explicit-state BFS over operation histories on real objects (fresh instance + replay per transition), compared step by step with a reference model"
E3="E3 crash: crash-state enumeration at every mutating file-system step (vos), recovery by the real constructor"
E4="E4 enum: exhaustive enumeration of a finite input/configuration product against an independent reference"
checks = {
 "C01": dict(engine="E4", cat="exploration", tech="exhaustive enumeration of a structured datagram alphabet x (offset, clock) configurations on a live real server vs reference model",
   text="Every datagram of a structured finite alphabet (boundary product of timeslot x power x named device x signer, all 640 single-bit flips, every length 0..81, extensions, field swaps, wrong-prefix signatures) is injected into a live real server at 18+ (offset, now-offset) configurations; after each one the full snapshot, the persisted report log and (at checkpoints) sync bitfield, recent-reports and weekly statistics are compared with the reference model. Complete for the alphabet, silent outside it.",
   note="Datagrams enter through VerifInjectDatagram, which reproduces the listener's 80-byte read; clock is the test build's settable protocol clock; signature scheme (go-ethereum secp256k1) trusted.", ref="3 C01"),
 "C02": dict(engine="E2", cat="model_checking", tech="explicit-state BFS to closure over report histories on the real server vs set-based rule",
   text="Breadth-first search to closure over all histories of 7 report variants per (device, slot) on the real server; every transition checked against the set-based rule of the property and the reference model, every distinct state through all three public observables. Order independence is checked (permutations must land in one state), not assumed.",
   note="Small alphabet (2 devices, 3-5 slots, 7 variants); values outside it are not covered. Capacity arithmetic overflow for capacities > 2^64/135 not exercised.", ref="3 C02"),
 "C03": dict(engine="E2", cat="model_checking", tech="explicit-state BFS over report/clock/rotation/query histories on the real server vs reference model and independent encoder",
   text="BFS (depth-bounded) over histories of reports at window edges, clock moves, rotation-loop ticks, forced rotations, impact rounds, bans and statistics requests (including insert_false_negatives with the random source answering 'always'); at every distinct state every archived week on disk and through the API must equal the model, verify under the server key over an independently written encoding, and be identical to its first appearance.",
   note="Depth-bounded (4 quick / 5 thorough); WattTime is the test-mode stub; device order inside a record is Go map order and compared as a multiset.", ref="3 C03"),
 "C04": dict(engine="E2", cat="model_checking", tech="explicit-state BFS over server histories with restart;restart differential at every distinct state",
   text="BFS over histories of reports, bans, rotations, impact rounds and clock moves; at every distinct state the server is restarted twice on its directory: start must succeed, the recovered snapshot must equal the model (with the catch-up rotations the implementation chose), archived weeks must be byte-identical, the second restart must change nothing, and all public observables must agree afterwards.",
   note="Authorized-server list, migration orders and live-window impact rates are documented as not persisted and are dropped by the model at restart.", ref="3 C04"),
 "C06": dict(engine="E2", cat="model_checking", tech="explicit-state BFS over authorization/report/restart histories through the JSON endpoint vs reference model",
   text="BFS over histories of authorizations (valid, duplicate, conflicting in capacity / debt / key / reusing another device's key, flipped signature bit, temp-key, server-key and foreign-GCA signatures), reports, rotation and restart; status codes, device set, bans, public-key index consistency and every public observable compared with the model at every state; the server's own CheckInvariants runs at every Close.",
   note="Depth-bounded (4 quick / 6 thorough). Latitude/longitude fixed to one finite pair (JSON float round trip is C15's business).", ref="3 C06"),
 "C07": dict(engine="E2+E1", cat="model_checking", tech="explicit-state BFS over registration/order histories; all interleavings of concurrent registrations under the cooperative scheduler",
   text="Sequential: BFS to closure from an unregistered server over registrations and GCA-authority orders signed by the temp key, two candidate GCA keys and the server key, with restarts. Concurrent: every interleaving at lock points of competing registrations and an authorization. Exactly one registration may win, the file equals the winner, only the winner's orders are honoured.",
   note="HTTP transport is bypassed (handlers are called through the server's own mux on the calling goroutine).", ref="3 C07"),
 "C18": dict(engine="E2", cat="model_checking", tech="explicit-state BFS over Printf/advance/ExpireLogs/Dump histories on the real EventLogger under virtual time vs list model",
   text="BFS over all histories up to depth 5 (quick) / 7 (thorough) of 16 operations for 5 configurations on the real EventLogger under a virtual clock; every transition compared with an exact list model (dump map, dump order, running size counter).",
   note="Distinct Printf calls get distinct time stamps (1 ns apart).", ref="3 C18"),
 "C19": dict(engine="E2+E1", cat="model_checking", tech="explicit-state BFS of sequential histories + exhaustive interleaving exploration (unbounded preemptions) with the clock read as a scheduling point",
   text="Sequential: BFS over Allow/advance histories for limit 1..3 with exact judgement. Concurrent: every interleaving of 3-4 callers and a clock thread (lock acquisition, clock read and tick are scheduling points), judged with interval arithmetic on each call's before/after instants so that only certain violations count. The same bodies run free under the race detector as auxiliary evidence.",
   note="Virtual time replaces the wall clock; real-scheduler starvation is out of reach.", ref="3 C19"),
}
levels_engine = {"E1":E1,"E2":E2,"E3":E3,"E4":E4}
all_props=[json.loads(l)['id'] for l in open('/verif/properties.jsonl')]
m = {
 "version": 1,
 "setup_cmd": "./run build",
 "hooks": {
  "guard": "verif",
  "enable": "./run regenerates an import-rewriting overlay from /repo's working tree (sync/time/os/io/ioutil/net/crypto/rand/math/rand -> harness shims; function bodies untouched) and builds with `go build -tags test,verif -overlay /verif/.cache/overlay/overlay.json`; production constants via `-tags verif` (cmd/vprod)",
  "baseline_off_cmd": "cd /repo && go test -mod=mod -json -vet=off -count=1 -timeout 25m ./...",
  "source_commits": hook_shas,
  "add_only": True
 },
 "engines": [
  {"name":"E1 sched","path":"harness/vsched, harness/cmd/vcheck/explore.go","serves_properties":["C07","C13","C14","C19"],"kind_free_text":E1},
  {"name":"E2 seqmc","path":"harness/cmd/vcheck/bfs.go, bfspool.go, opsworld.go, model.go","serves_properties":["C02","C03","C04","C06","C07","C08","C09","C17","C18","C19"],"kind_free_text":E2},
  {"name":"E3 crash","path":"harness/shim/vos, harness/cmd/vcheck/c05.go","serves_properties":["C05"],"kind_free_text":E3},
  {"name":"E4 enum","path":"harness/cmd/vcheck/c01.go and friends","serves_properties":["C01","C10","C11","C12","C15","C16","C20"],"kind_free_text":E4},
 ],
 "checks": [],
 "notes": "All checks run the real code (recompiled with shimmed imports) and rebuild from /repo's working tree on every invocation. Known findings: /verif/known_findings.json.",
 "not_applicable": []
}
for pid in all_props:
    c = checks.get(pid)
    if not c:
        m["not_applicable"].append({"property_id": pid, "reason": "check not built yet in this round (planned in DESIGN.md section 3 %s); not a statement that the technique cannot apply" % pid})
        continue
    m["checks"].append({
      "property_id": pid,
      "quick_cmd": "./run %s quick" % pid,
      "thorough_cmd": "./run %s thorough" % pid,
      "evidence_file": "/verif/evidence/%s.json" % pid,
      "replay_cmd_template": "./run replay {path}",
      "engine": c["engine"],
      "level_claimed": {"category": c["cat"], "text": c["text"], "design_ref": "DESIGN.md " + c["ref"]},
      "level_note": c["note"],
      "technique": c["tech"],
    })
json.dump(m, open('/verif/MANIFEST.json','w'), indent=1)
print("checks:", [c["property_id"] for c in m["checks"]], "n/a:", len(m["not_applicable"]))
