#!/usr/bin/env python3
"""Regenerates MANIFEST.json from the table below (kept in one place so the file stays valid)."""
import json, subprocess
hooks_commits = subprocess.check_output(['git','-C','/repo','log','--format=%h %s']).decode().splitlines()
hook_shas = [l.split()[0] for l in hooks_commits if 'verif hooks' in l or 'verif hook' in l]
E1="E1 sched: stateless DFS over thread interleavings of the real code under a cooperative scheduler (vsync/vsched), iteratively preemption-bounded"
E2="E2 seqmc: explicit-state BFS over operation histories on real objects (fresh instance + replay per transition), compared step by step with a reference model"
E3="E3 crash: crash-state enumeration at every mutating file-system step (vos), recovery by the real constructor"
E4="E4 enum: exhaustive enumeration of a finite input/configuration product against an independent reference"
checks = {
 "C01": dict(engine="E4", cat="exploration", tech="exhaustive enumeration of a structured datagram alphabet x (offset, clock) configurations on a live real server vs reference model",
   text="Every datagram of a structured finite alphabet (boundary product of timeslot x power x named device x signer, all 640 single-bit flips, every length 0..81, extensions, field swaps, wrong-prefix signatures) is injected into a live real server at 18+ (offset, now-offset) configurations; after each one the full snapshot, the persisted report log and (at checkpoints) sync bitfield, recent-reports and weekly statistics are compared with the reference model. Complete for the alphabet, silent outside it.",
   note="Datagrams enter through VerifInjectDatagram, which reproduces the listener's 80-byte read; clock is the test build's settable protocol clock; signature scheme (go-ethereum secp256k1) trusted.", ref="3 C01"),
 "C02": dict(engine="E2", cat="model_checking", tech="explicit-state BFS to closure over report histories on the real server vs set-based rule",
   text="Breadth-first search to closure over all histories of 7 report variants per (device, slot) on the real server; every transition checked against the set-based rule of the property and the reference model, every distinct state through all three public observables. Order independence is checked (permutations must land in one state), not assumed. The same search runs again in a window that has rotated once (thorough: twice), where array index and timeslot differ.",
   note="Small alphabet (2 devices, 3-5 slots, 7 variants); values outside it are not covered. Capacity arithmetic overflow for capacities > 2^64/135 not exercised.", ref="3 C02"),
 "C03": dict(engine="E2", cat="model_checking", tech="explicit-state BFS over report/clock/rotation/query histories on the real server vs reference model and independent encoder",
   text="BFS (depth-bounded) over histories of reports at window edges, clock moves, rotation-loop ticks, forced rotations, impact rounds, bans and statistics requests (including insert_false_negatives with the random source answering 'always'); at every distinct state every archived week on disk and through the API must equal the model, verify under the server key over an independently written encoding, and be identical to its first appearance (also after false-negatives requests and restart;restart). At every distinct state every held week is also requested under every spelling a parser might normalise (+k*2^32, +2^64, signs, blanks, hex, fraction, exponent, duplicated parameter): only a plain aligned non-future decimal below 2^32 may be answered, labelled with that number. Devices are named 0, 2 and 4294967295.",
   note="Depth-bounded (3 quick / 4 thorough); WattTime is the test-mode stub; device order inside a record is Go map order and compared as a multiset.", ref="3 C03"),
 "C04": dict(engine="E2", cat="model_checking", tech="explicit-state BFS over server histories with restart;restart differential at every distinct state",
   text="BFS over histories of reports, bans, rotations, impact rounds and clock moves; at every distinct state the server is restarted twice on its directory: start must succeed, the recovered snapshot must equal the model (with the catch-up rotations the implementation chose), archived weeks must be byte-identical, the second restart must change nothing, and all public observables must agree afterwards. Devices are named 0 (zero value), 2 and 4294967295.",
   note="Authorized-server list, migration orders and live-window impact rates are documented as not persisted and are dropped by the model at restart.", ref="3 C04"),
 "C06": dict(engine="E2", cat="model_checking", tech="explicit-state BFS over authorization/report/restart histories through the JSON endpoint vs reference model",
   text="BFS over histories of authorizations (valid, duplicate, conflicting in capacity / debt / key / reusing another device's key, flipped signature bit, temp-key, server-key and foreign-GCA signatures), reports, rotation and restart; status codes, device set, bans, public-key index consistency and every public observable compared with the model at every state; the server's own CheckInvariants runs at every Close. The clock stands in the second week of the live window (device 0 reports there, device 2 in the first week). Plus, for every field of an authorization (incl. +0/-0, subnormal and 1-ulp float differences): first, identical resubmission, validly signed second one differing in that field only, original again, restart.",
   note="Depth-bounded (4 quick / 6 thorough).", ref="3 C06"),
 "C07": dict(engine="E2+E1", cat="model_checking", tech="explicit-state BFS over registration/order histories; all interleavings of concurrent registrations under the cooperative scheduler",
   text="Sequential: BFS to closure from an unregistered server over registrations and GCA-authority orders signed by the temp key, two candidate GCA keys and the server key, with restarts, and registrations whose key file cannot be opened (EACCES) or written (ENOSPC) and must therefore fail as a whole. Concurrent: every interleaving at lock points of competing registrations and an authorization. Exactly one registration may win, the file equals the winner, only the winner's orders are honoured.",
   note="HTTP transport is bypassed (handlers are called through the server's own mux on the calling goroutine).", ref="3 C07"),
 "C18": dict(engine="E2", cat="model_checking", tech="explicit-state BFS over Printf/advance/ExpireLogs/Dump histories on the real EventLogger under virtual time vs list model",
   text="BFS over all histories up to depth 5 (quick) / 7 (thorough) of 16 operations for 5 configurations on the real EventLogger under a virtual clock; every transition compared with an exact list model (dump map, dump order, running size counter); every transition runs under a watchdog (an operation that does not return is a violation).",
   note="Distinct Printf calls get distinct time stamps (1 ns apart).", ref="3 C18"),
 "C19": dict(engine="E2+E1", cat="model_checking", tech="explicit-state BFS of sequential histories + exhaustive interleaving exploration (unbounded preemptions) with the clock read as a scheduling point",
   text="Sequential: BFS over Allow/advance histories for limit 1..3 with exact judgement, state key = model state + clock-independent rendering of all fields of the limiter; a second search over a coarse clock alphabet to depth 13/16 (fill, replace, idle window, refill, probe). Concurrent: every interleaving of 3-4 callers and a clock thread (lock acquisition, clock read and tick are scheduling points), judged with interval arithmetic on each call's before/after instants so that only certain violations count. The same bodies run free under the race detector as auxiliary evidence.",
   note="Virtual time replaces the wall clock; real-scheduler starvation is out of reach.", ref="3 C19"),

 "C05": dict(engine="E3", cat="fault_enumeration", tech="crash-state enumeration: every mutating file-system step of every short operation history, recovery by the real constructor vs model of the durable prefix",
   text="Every history of length <= 4 (quick) / 6 (thorough) over {register, authorize, conflicting authorize, first report, second report, rotate, restart} after a first start, fleets of 3-5 devices, and logs long enough for a report (52nd) and an authorization (28th) to straddle a page boundary, is run once on the real server with the file-system shim copying the directory after every mutating step (ioutil.WriteFile split into truncate and write; a write that crosses a 4096-byte boundary split into one step per page). Every distinct crash image is recovered by the real NewGCAServer: it must start, equal the model of the completed operations with the in-flight operation either in or out, keep a usable key pair, still accept its GCA's registration / orders and a report, and then restart once more without losing anything.",
   note="Process-crash model: completed system calls persist; a write crossing a page boundary persists page by page (measured on this kernel). Tears inside a page, loss of completed writes (power failure) and SIGKILL at random instants are not covered.", ref="3 C05"),
 "C08": dict(engine="E2", cat="fault_enumeration", tech="exhaustive enumeration of loss/duplication/sync-failure patterns between a real client and a real server over a scripted network under virtual time",
   text="Every combination of per-slot reading x fate of the original datagram (delivered, dropped, duplicated) x earlier sync round (none, dial failure, malformed reply, all retransmissions dropped, delivered) x (nothing, week rotation, server restart), then a fault-free round, on a real client and a real server in one process; afterwards all delivered datagrams are re-delivered in reverse order. Every slot with a reading must be held by the server with the right value and not banned, and every datagram ever emitted for a slot must be byte-identical to the first.",
   note="3 adjacent slots chosen so that mirrored/shifted bit mappings collide; readings fit 32 signed bits (the property's restriction); delays are not modelled.", ref="3 C08"),
 "C09": dict(engine="E2", cat="model_checking", tech="explicit-state BFS over energy-file edit / tick / restart / sync histories on the real client, wire log oracle; BFS over history-store operations vs map model",
   text="BFS (depth 4 quick / 5 thorough) over histories of energy-file edits, send-loop ticks (the loop's real timer), client restarts and sync rounds against a server that reports nothing received; every datagram on the wire is logged; per slot all datagrams with power not in {0,1} must be identical, no history cell may change once non-zero. Store level: BFS over save sequences vs a map model. Two goroutines: every interleaving at file operations of the report loop's conflict check + save against a sync round's scan on the same history file handle.",
   note="One known finding (values outside int32) is listed in known_findings.json and suppressed by signature.", ref="3 C09"),
 "C10": dict(engine="E4", cat="exploration", tech="exhaustive mutation enumeration (all single-bit flips, all truncations, re-signings, timestamp shifts) of real sync replies for a family of real server states, real handler -> real parser",
   text="For 13 real server states the real handler's reply goes through the real client parser and must equal the server snapshot; then every single-bit flip, every truncation, re-signing under 4 other keys, +-24h / +-24h+1s timestamps, foreign device binding, unsigned server entries and defective migration orders must be rejected without panic or state change; for every entry of the genuine list (and an accepted migration order), after the client has accepted it, every single-field alteration under the same signature bytes must be rejected; reference-encoded replies with arbitrary offsets, every single bitfield bit and server lists must parse to exactly those values.",
   note="Server states are a finite family; quick strides bit flips by 7 for the two largest replies.", ref="3 C10"),
 "C11": dict(engine="E4", cat="exploration", tech="exhaustive enumeration of reply shapes (every length 0..800, rogue-signed bodies) and of per-attempt outcome sequences of the sync round on the real client",
   text="(a) ~5000 reply shapes - every length as zeros, cut genuine reply, short read, bodies signed with the contacted server's real key - against the real parser: no panic, mutex free, state unchanged. (b) every sequence of per-attempt outcomes for 1..3 servers with none/one/all banned (and the all-fail / fifth-attempt cases for 4-6 servers), and rogue list orders (ban-then-authorization and authorization-then-ban of an unknown and of a known server inside one accepted reply), through the real sync round, then a send-loop tick, a second round and a restart: mutex free, reports still emitted, banned servers never contacted, bans (configured or carried by an accepted reply) never forgotten or lost on restart, the reported round result equals 'an attempt succeeded'.",
   note="Delays are represented by refusal/reset (virtual time); Go map order inside the client is observed, not controlled. Includes the static lock-path search (vlock) over package client and glow.", ref="3 C11"),
 "C12": dict(engine="E4", cat="exploration", tech="exhaustive enumeration of a request grid (handlers x methods x query/body variants, sync requests, datagram alphabet) over clock configurations on the real server; shutdown scenarios on real sockets",
   text="Per clock configuration, with an authorized peer that is down: every handler x {GET, POST, PUT} x query/body variants through the server's own mux, sync requests of 0..4 bytes, the C01 datagram alphabet, an impact round and a rotation; after each one both mutexes must be free and a probe request must answer. Ten crash-only interleaving scenarios (every kind of untrusted request against a ban or a rotation that removes what its handler looked up; every schedule at lock acquisitions): no panic, no deadlock, no lock left held. A volume run beyond the bounded in-memory lists. Close() with 0/1/3 idle or half-sent TCP connections must return within 4x serverShutdownTime (violation only with a goroutine dump showing the blocked handler).",
   note="/geo-stats only up to parameter validation; production-only WattTime paths cannot run offline; net/http internals trusted.", ref="3 C12"),
 "C13": dict(engine="E1", cat="model_checking", tech="stateless exploration of all thread interleavings at lock acquisitions of the real server under a cooperative scheduler, preemption-bounded; sequential-orders differential oracle; separate free-running -race pass",
   text="15 scenarios of 2-4 threads (impact job, rotation, reports, bans, authorizations, sync, statistics, registration, server authorization) are explored on the real server for every schedule with <= 2 preemptions (quick) / unbounded (thorough). Oracle: no panic, no deadlock, all mutexes free, CheckInvariants, and (observations, final state) equals the outcome of one of the sequential orders run on fresh instances. The same bodies run free under -race; a report is a violation.",
   note="Scheduling points are lock acquisitions; unsynchronised accesses are only visible to the race pass (sampling, auxiliary). Includes the static lock-path search (vlock, E5) over package server.", ref="3 C13"),
 "C14": dict(engine="E1", cat="model_checking", tech="stateless exploration of interleavings with file-system calls as scheduling points: archive handler vs write bursts; every produced zip inspected",
   text="The archive handler runs against six write bursts with every open/read/write/create as a scheduling point and every append that crosses a page boundary visible page by page (<= 2 preemptions quick, 3 thorough); every zip produced is checked for record-aligned prefixes, dependency closure under the archived keys, the exact public key entry and absence of the private key. A BFS over histories of valid, conflicting and forged submissions takes an archive at rest in every distinct state (same oracle; archived file = complete file). The rate limit: every request sequence up to depth 7 over window-edge spacings under virtual time through the handler.",
   note="Preemption-bounded; log-file writes are not scheduling points; tears inside a page are not modelled.", ref="3 C14"),
 "C15": dict(engine="E4", cat="exploration", tech="exhaustive enumeration of per-field boundary products, all lengths and all single-bit flips against independently written reference encoders",
   text="Boundary products for every structure against independent little-endian encoders incl. the ASCII type prefix; client server maps also as all 80 ordered reference-encoded images of 2-3 entries with pairwise different location lengths; decode(encode(v)) = v; every length around the valid one refused; JSON transport identity; every single-bit flip of message, signature and key and the algebraic signature variants fail verification; signing is deterministic; all signing-byte strings of the corpus are pairwise distinct across values and types.",
   note="Field values outside the boundary alphabet are not covered; go-ethereum secp256k1 is trusted.", ref="3 C15"),
 "C16": dict(engine="E4", cat="exploration", tech="exhaustive enumeration of CSV contents x calibration settings on the real reader against an independent rule",
   text="All CSV files of 0..2 rows from 7 timestamps x 14 readings in 8 shapes x 9 calibration settings are read by the real reader of a real client and compared with an independently written rule (skip / sentinel 2 / sentinel 3 / scaled, truncated, two's complement); malformed calibration must be refused by NewClient, never crash.",
   note="Timestamps at or beyond genesis+2^32 s are outside the stated domain; NaN/Inf/overflow only checked for absence of a crash.", ref="3 C16"),
 "C17": dict(engine="E2", cat="model_checking", tech="explicit-state BFS over server-authorization posts on the real server and over sync-reply histories (lists, migrations, restarts) on the real client vs models",
   text="Server side: BFS over signed and unsigned server-authorization posts; list compared with the model after every transition. Client side: BFS over sync rounds against scripted servers answering with 15 list/migration variants (incl. one key listed twice: forged after genuine, genuine ban before the genuine older authorization) and client restarts; client state and its three files compared with a client model after every history.",
   note="Depth-bounded (client side 4 quick / 5 thorough).", ref="3 C17"),
 "C20": dict(engine="E4", cat="exploration", tech="exhaustive enumeration of the timeslot domain in a production-tag build; explicit-state exploration of the rotation cadence with measured parameters, model traces replayed on the real rotation loop",
   text="Production binary: every timeslot 0..14316557 at three instants (thorough: every second of the 2^32-second domain) for exact slot, round trip, monotonicity and pre-genesis refusal; production constants and CurrentTimeslot under the shimmed clock. Live server: acceptance of own-key reports at every distance -434..+434 at both uint32 extremes. Cadence: all ~42k states (now-offset, timer phase) under the production period with trigger, half-width, window and the start-up behaviour (rotations done by the end of start-up as a function of the lag, exact at its change points) measured from the implementation, invariant 'acceptable reports stay inside the window'; 28 model traces replayed against the real loop.",
   note="High end of uint32 observed through server log lines (auxiliary); timer lateness of at most one slot assumed.", ref="3 C20"),
}
levels_engine = {"E1":E1,"E2":E2,"E3":E3,"E4":E4}
all_props=[json.loads(l)['id'] for l in open('/verif/properties.jsonl')]
m = {
 "version": 1,
 "setup_cmd": "./run build",
 "hooks": {
  "guard": "verif",
  "enable": "./run regenerates an import-rewriting overlay from /repo's working tree (sync/time/os/io/ioutil/net/crypto/rand/math/rand -> harness shims; function bodies untouched) and builds with `go build -tags test,verif -overlay /verif/.cache/overlay/overlay.json`; production constants via `-tags verif` (cmd/vprod)",
  "baseline_off_cmd": "cd /repo && go test -mod=mod -json -vet=off -count=1 -timeout 25m ./...",
  "source_commits": hook_shas,
  "add_only": True
 },
 "engines": [
  {"name":"E1 sched","path":"harness/vsched, harness/cmd/vcheck/explore.go","serves_properties":["C07","C13","C14","C19"],"kind_free_text":E1},
  {"name":"E2 seqmc","path":"harness/cmd/vcheck/bfs.go, bfspool.go, opsworld.go, model.go","serves_properties":["C02","C03","C04","C06","C07","C08","C09","C17","C18","C19"],"kind_free_text":E2},
  {"name":"E3 crash","path":"harness/shim/vos, harness/cmd/vcheck/c05.go","serves_properties":["C05"],"kind_free_text":E3},
  {"name":"E4 enum","path":"harness/cmd/vcheck/c01.go and friends","serves_properties":["C01","C10","C11","C12","C15","C16","C20"],"kind_free_text":E4},
  {"name":"E5 vlock","path":"harness/vlock","serves_properties":["C11","C13"],"kind_free_text":"explicit-state search over (basic block x held-lock set x pending defers) of every locking function on go/ssa of the current tree"},
 ],
 "checks": [],
 "notes": "All checks run the real code (recompiled with shimmed imports) and rebuild from /repo's working tree on every invocation. Known findings: /verif/known_findings.json.",
 "not_applicable": []
}
for pid in all_props:
    c = checks.get(pid)
    if not c:
        m["not_applicable"].append({"property_id": pid, "reason": "check not built yet in this round (planned in DESIGN.md section 3 %s); not a statement that the technique cannot apply" % pid})
        continue
    m["checks"].append({
      "property_id": pid,
      "quick_cmd": "./run %s quick" % pid,
      "thorough_cmd": "./run %s thorough" % pid,
      "evidence_file": "/verif/evidence/%s.json" % pid,
      "replay_cmd_template": "./run replay {path}",
      "engine": c["engine"],
      "level_claimed": {"category": c["cat"], "text": c["text"], "design_ref": "DESIGN.md " + c["ref"]},
      "level_note": c["note"],
      "technique": c["tech"],
    })
json.dump(m, open('/verif/MANIFEST.json','w'), indent=1)
print("checks:", [c["property_id"] for c in m["checks"]], "n/a:", len(m["not_applicable"]))
